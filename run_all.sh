#!/bin/sh
# run every registered quick check on /repo's working tree (refreshes evidence/*.json)
cd /verif
for id in $(python3 -c "import json;print(' '.join(c['property_id'] for c in json.load(open('MANIFEST.json'))['checks']))"); do
  if [ -n "$1" ] && ! echo "$@" | grep -qw "$id"; then continue; fi
  python3-vt -m hdcv.check $id --tier quick > /tmp/check_$id.log 2>&1; rc=$?
  echo "$id rc=$rc $(grep -c '^VIOLATION' /tmp/check_$id.log) violations; $(tail -1 /tmp/check_$id.log | cut -c1-150)"
done

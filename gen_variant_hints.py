"""Record which encoding discharged each obligation on the unchanged tree (contracts/variant_hints.json, from evidence/*.json).

The portfolio (hdcv/smt.py) tries the recorded encoding first.  This is an ordering hint only: the obligation is still proved on
every run, by whatever encoding answers `unsat` first; a missing or stale hint costs time, never soundness.  Re-run after ./run_all.sh."""
import glob, json
out = {}
for f in sorted(glob.glob("/verif/evidence/C*.json")):
    d = json.load(open(f))
    for o in d["coverage"].get("obligation_list", []):
        b = o.get("backend") or ""
        if o.get("verdict") == "discharged" and b.startswith("z3/"):
            out[o["id"]] = b
json.dump(out, open("/verif/contracts/variant_hints.json", "w"), indent=0, sort_keys=True)
print(len(out), "hints")

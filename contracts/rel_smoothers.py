"""C02 -- placeholder non-interference of the fixed-lambda and GCV smoothers, as a relational (two-run) contract in model U.

Two runs of the same kernel on inputs that have the same missing mask and the same valid values (placeholders and the
nodata value itself arbitrary, NaN / +-inf allowed) return the same band; every floating-point operation is an
uninterpreted function, so the equality holds bit for bit whatever the rounding."""
from hdcv.spec import contract

OPS = "hdc/algo/ops"
# callee: the core solver as a deterministic function of its in-range inputs (nothing else is used here)
contract(f"{OPS}/ws2d.py::ws2d", variant="U", fmodel="U", params={"y": "real[N]", "lmda": "real", "w": "real[N]"}, result="real[N]",
         options={"frame_obligations": False}, props=("C02",), note="call-site contract in model U: pure function of (y, lmda, w) on the index range")


def miss(i):
    return f"(y_{i}[j] == nodata_{i} or isnan(y_{i}[j]) or isinf(y_{i}[j]))"


REQ = {"same_missing_mask": f"forall(j, 0, N, {miss(1)} == {miss(2)})",
       "same_valid_values": f"forall(j, 0, N, implies(not {miss(1)}, y_1[j] == y_2[j]))"}

contract(f"{OPS}/ws2dgu.py::ws2dgu", variant="rel", fmodel="U",
    params={"y": "real[N]", "lmda": "real", "nodata": "real", "out": "i2[N]"}, modifies=["out"],
    requires=REQ,
    ensures={"same_band": "implies(lmda != 0.0 and n_1 > 1, forall(k, 0, N, out_1[k] == out_2[k]))",
             "same_branch": "implies(lmda != 0.0, (n_1 > 1) == (n_2 > 1))"},
    options={"rel_vary": ["y", "nodata"]}, call_variant={"ws2d": "U"}, props=("C02",))

contract(f"{OPS}/ws2dpgu.py::ws2dpgu", variant="rel", fmodel="U",
    params={"y": "real[N]", "lmda": "real", "nodata": "real", "p": "real", "out": "i2[N]"}, modifies=["out"],
    requires=REQ,
    ensures={"same_band": "implies(lmda != 0.0 and n_1 > 1, forall(k, 0, N, out_1[k] == out_2[k]))",
             "same_branch": "implies(lmda != 0.0, (n_1 > 1) == (n_2 > 1))"},
    options={"rel_vary": ["y", "nodata"]}, call_variant={"ws2d": "U"}, props=("C02",))

REL = [f"{OPS}/ws2dgu.py::ws2dgu@rel", f"{OPS}/ws2dpgu.py::ws2dpgu@rel"]
# robust=True is registered (second variant of the loop below) but NOT claimed by any check.  State at the end of the build: with
# lockstep unrolling of the four re-weighting rounds (and of the single-lambda scans), on-demand pairing of the arrays handed to
# np.median / np.max and argument-wise congruence, the robust variant of ws2dwcv discharged all 65 path pairs on the unchanged tree in
# an ad-hoc dev_run (about 30 min of generation); its mutation self-test (zero-fill removed) did not finish in the time left, so it
# is not registered, not even in the thorough tier.  The robust variant of ws2dwcvp stops with `unbound name ww` (weights first
# defined inside the ten-pass envelope loop, which the lockstep rule cuts instead of unrolling).  The robust branch stays with the
# bounded stand-in (standin/c02.py, standin/c05.py; DESIGN.md section 0.2).
for rb, tag in (("const(False)", "rel"), ("const(True)", "rel_robust")):
    contract(f"{OPS}/ws2dwcv.py::ws2dwcv", variant=tag, fmodel="U",
        params={"y": "real[N]", "nodata": "real", "llas": "real[M]", "robust": rb, "out": "i2[N]", "lopt": "real[1]"}, modifies=["out", "lopt"],
        requires=REQ,
        ensures={"same_band_and_lambda": "implies(n_1 > 4, forall(k, 0, N, out_1[k] == out_2[k]) and same(lopt_1[0], lopt_2[0]))",
                 "same_branch": "(n_1 > 4) == (n_2 > 4)"},
        options={"rel_vary": ["y", "nodata"], "rel_lockstep": rb == "const(True)", "rel_max_open": 600, "gen_budget_s": 3600}, call_variant={"ws2d": "U"}, props=("C02",))
    contract(f"{OPS}/ws2dwcvp.py::ws2dwcvp", variant=tag, fmodel="U",
        params={"y": "real[N]", "nodata": "real", "p": "real", "llas": "real[M]", "robust": rb, "out": "i2[N]", "lopt": "real[1]"}, modifies=["out", "lopt"],
        requires=REQ,
        ensures={"same_band_and_lambda": "implies(n_1 > 4, forall(k, 0, N, out_1[k] == out_2[k]) and same(lopt_1[0], lopt_2[0]))",
                 "same_branch": "(n_1 > 4) == (n_2 > 4)"},
        options={"rel_vary": ["y", "nodata"], "rel_lockstep": rb == "const(True)", "rel_max_open": 600, "gen_budget_s": 3600}, call_variant={"ws2d": "U"}, props=("C02",))
    REL += [f"{OPS}/ws2dwcv.py::ws2dwcv@{tag}", f"{OPS}/ws2dwcvp.py::ws2dwcvp@{tag}"]


# ------------------------------------------------------------------------------------------------------------------------------
# The V-curve kernels do not zero-fill missing cells: the placeholder reaches the solver and the fit sums and is cancelled there by
# the zero weight (0 * placeholder).  Step 1: the solver depends on y only through the products w[i] * y[i] (relational contract of
# ws2d itself, lockstep over its two loops).  Step 2 (below): the kernels, with the solver as a function of (w * y, lmda, w).
contract(f"{OPS}/ws2d.py::ws2d", variant="rel", fmodel="U", params={"y": "real[N]", "lmda": "real", "w": "real[N]"}, result="real[N]",
         requires={"length": "N >= 4", "same_products": "forall(j, 0, N, same(w[j] * y_1[j], w[j] * y_2[j]))"},
         ensures={"same_curve": "forall(k, 0, N, same(result_1[k], result_2[k]))"},
         options={"rel_vary": ["y"], "rel_lockstep": True, "frame_obligations": False}, props=("C02",),
         note="two runs with the same weights, the same lambda and the same products w*y return the same curve")
contract(f"{OPS}/ws2d.py::ws2d", variant="Uwy", fmodel="U", params={"y": "real[N]", "lmda": "real", "w": "real[N]"}, result="real[N]",
         options={"frame_obligations": False, "valfn_args": {"y": "w * y"}}, props=("C02",),
         note="call-site contract in model U: a function of (w * y, lmda, w) on the index range; justified by ws2d@rel")
REL.append(f"{OPS}/ws2d.py::ws2d@rel")


def missv(i):
    return f"(y_{i}[j] == nodata_{i})"


REQ_V = {"length": "N >= 4", "srange": "M >= 2",
         "same_missing_mask": f"forall(j, 0, N, {missv(1)} == {missv(2)})",
         "same_valid_values": f"forall(j, 0, N, implies(not {missv(1)}, same(y_1[j], y_2[j])))",
         "finite_placeholders": f"forall(j, 0, N, implies({missv(1)}, not isnan(y_1[j]) and not isinf(y_1[j]) and not isnan(y_2[j]) and not isinf(y_2[j])))"}
UNIT_W = {0: {"var": "ii", "invariant": {"unit": "forall(k, 0, ii, w[k] == ite(y[k] == nodata, 0.0, 1.0))"}}}
contract(f"{OPS}/ws2doptv.py::ws2doptv", variant="rel", fmodel="U",
    params={"y": "real[N]", "nodata": "real", "llas": "real[M]", "out": "i2[N]", "lopt": "real[1]"}, modifies=["out", "lopt"],
    requires=REQ_V,
    ensures={"same_band_and_lambda": "implies(n_1 > 1, forall(k, 0, N, out_1[k] == out_2[k]) and same(lopt_1[0], lopt_2[0]))",
             "same_branch": "(n_1 > 1) == (n_2 > 1)"},
    loops={**UNIT_W, 6: {"var": "i", "invariant": {"k": "0 <= k and k < nl1"}}},
    options={"rel_vary": ["y", "nodata"], "rel_lockstep": True, "extra_axioms": ["sub_finite", "sub_nonfinite"]}, call_variant={"ws2d": "Uwy"}, props=("C02",))
REL.append(f"{OPS}/ws2doptv.py::ws2doptv@rel")
# envelope weights: every cell written so far is the validity weight times p or 1 - p (so a missing cell's weight is 0 * finite = 0)
ENV_W = {"var": "j", "invariant": {"ww": "forall(k, 0, j, ww[k] == w[k] * wa[k] and (same(wa[k], p) or same(wa[k], p1)))"}}
ENV_OUTER = {"var": "i", "invariant": {"ww": "implies(i >= 1, forall(k, 0, N, ww[k] == w[k] * wa[k] and (same(wa[k], p) or same(wa[k], p1))))"}}
# rel_scratch: per-cell scratch variables that legitimately differ at missing cells (the placeholder, its envelope side, the running
# convergence measure); naming them only saves the invariant inference two re-analyses of the nested loops
VOPT = {"rel_vary": ["y", "nodata"], "rel_lockstep": True, "extra_axioms": ["sub_finite", "sub_nonfinite"], "rel_scratch": ["wa", "y_tmp"]}
contract(f"{OPS}/ws2doptvp.py::ws2doptvp", variant="rel", fmodel="U",
    params={"y": "real[N]", "nodata": "real", "p": "real", "llas": "real[M]", "out": "i2[N]", "lopt": "real[1]"}, modifies=["out", "lopt"],
    requires=dict(REQ_V, finite_envelope="not isnan(p) and not isinf(p)"),
    ensures={"same_band_and_lambda": "implies(n_1 > 1, forall(k, 0, N, out_1[k] == out_2[k]) and same(lopt_1[0], lopt_2[0]))",
             "same_branch": "(n_1 > 1) == (n_2 > 1)"},
    loops={**UNIT_W, 3: ENV_W, 11: ENV_W, 9: {"var": "i", "invariant": {"k": "0 <= k and k < nl1"}}, 10: ENV_OUTER},
    options=VOPT, call_variant={"ws2d": "Uwy"}, props=("C02",))
REL.append(f"{OPS}/ws2doptvp.py::ws2doptvp@rel")
for lcv, tag in (("real", "rel"),):
    contract(f"{OPS}/ws2doptvplc.py::ws2doptvplc", variant=tag, fmodel="U",
        params={"y": "i2[N]", "nodata": "real", "p": "real", "lc": lcv, "out": "i2[N]", "lopt": "real[1]"}, modifies=["out", "lopt"],
        requires={"length": "N >= 4",
                  "same_missing_mask": f"forall(j, 0, N, {missv(1)} == {missv(2)})",
                  "same_valid_values": f"forall(j, 0, N, implies(not {missv(1)}, y_1[j] == y_2[j]))",
                  "finite_envelope": "not isnan(p) and not isinf(p)"},
        ensures={"same_band_and_lambda": "implies(n_1 > 1, forall(k, 0, N, out_1[k] == out_2[k]) and same(lopt_1[0], lopt_2[0]))",
                 "same_branch": "(n_1 > 1) == (n_2 > 1)"},
        loops={**UNIT_W, 3: ENV_W, 11: ENV_W, 9: {"var": "i", "invariant": {"k": "0 <= k and k < nl1"}}, 10: ENV_OUTER},
        options=dict(VOPT, extra_axioms=VOPT["extra_axioms"] + ["i2f_finite"]), call_variant={"ws2d": "Uwy"}, props=("C02",))
    REL.append(f"{OPS}/ws2doptvplc.py::ws2doptvplc@{tag}")

"""C02 -- placeholder non-interference of the fixed-lambda and GCV smoothers, as a relational (two-run) contract in model U.

Two runs of the same kernel on inputs that have the same missing mask and the same valid values (placeholders and the
nodata value itself arbitrary, NaN / +-inf allowed) return the same band; every floating-point operation is an
uninterpreted function, so the equality holds bit for bit whatever the rounding."""
from hdcv.spec import contract

OPS = "hdc/algo/ops"
# callee: the core solver as a deterministic function of its in-range inputs (nothing else is used here)
contract(f"{OPS}/ws2d.py::ws2d", variant="U", fmodel="U", params={"y": "real[N]", "lmda": "real", "w": "real[N]"}, result="real[N]",
         options={"frame_obligations": False}, props=("C02",), note="call-site contract in model U: pure function of (y, lmda, w) on the index range")


def miss(i):
    return f"(y_{i}[j] == nodata_{i} or isnan(y_{i}[j]) or isinf(y_{i}[j]))"


REQ = {"same_missing_mask": f"forall(j, 0, N, {miss(1)} == {miss(2)})",
       "same_valid_values": f"forall(j, 0, N, implies(not {miss(1)}, y_1[j] == y_2[j]))"}

contract(f"{OPS}/ws2dgu.py::ws2dgu", variant="rel", fmodel="U",
    params={"y": "real[N]", "lmda": "real", "nodata": "real", "out": "i2[N]"}, modifies=["out"],
    requires=REQ,
    ensures={"same_band": "implies(lmda != 0.0 and n_1 > 1, forall(k, 0, N, out_1[k] == out_2[k]))",
             "same_branch": "implies(lmda != 0.0, (n_1 > 1) == (n_2 > 1))"},
    options={"rel_vary": ["y", "nodata"]}, call_variant={"ws2d": "U"}, props=("C02",))

contract(f"{OPS}/ws2dpgu.py::ws2dpgu", variant="rel", fmodel="U",
    params={"y": "real[N]", "lmda": "real", "nodata": "real", "p": "real", "out": "i2[N]"}, modifies=["out"],
    requires=REQ,
    ensures={"same_band": "implies(lmda != 0.0 and n_1 > 1, forall(k, 0, N, out_1[k] == out_2[k]))",
             "same_branch": "implies(lmda != 0.0, (n_1 > 1) == (n_2 > 1))"},
    options={"rel_vary": ["y", "nodata"]}, call_variant={"ws2d": "U"}, props=("C02",))

REL = [f"{OPS}/ws2dgu.py::ws2dgu@rel", f"{OPS}/ws2dpgu.py::ws2dpgu@rel"]
# robust=True is not covered relationally: after the boolean-mask selection r_arr[w_temp != 0] the lockstep similarity of the
# selections (np.median over a data-dependent length) is not provable by the per-statement lemmas and the run pairs diverge
# (>60 open queries); the robust branch stays with the bounded stand-in (standin/c02.py, DESIGN.md section 0).
for rb, tag in (("const(False)", "rel"),):
    contract(f"{OPS}/ws2dwcv.py::ws2dwcv", variant=tag, fmodel="U",
        params={"y": "real[N]", "nodata": "real", "llas": "real[M]", "robust": rb, "out": "i2[N]", "lopt": "real[1]"}, modifies=["out", "lopt"],
        requires=REQ,
        ensures={"same_band_and_lambda": "implies(n_1 > 4, forall(k, 0, N, out_1[k] == out_2[k]) and same(lopt_1[0], lopt_2[0]))",
                 "same_branch": "(n_1 > 4) == (n_2 > 4)"},
        options={"rel_vary": ["y", "nodata"]}, call_variant={"ws2d": "U"}, props=("C02",))
    contract(f"{OPS}/ws2dwcvp.py::ws2dwcvp", variant=tag, fmodel="U",
        params={"y": "real[N]", "nodata": "real", "p": "real", "llas": "real[M]", "robust": rb, "out": "i2[N]", "lopt": "real[1]"}, modifies=["out", "lopt"],
        requires=REQ,
        ensures={"same_band_and_lambda": "implies(n_1 > 4, forall(k, 0, N, out_1[k] == out_2[k]) and same(lopt_1[0], lopt_2[0]))",
                 "same_branch": "(n_1 > 4) == (n_2 > 4)"},
        options={"rel_vary": ["y", "nodata"]}, call_variant={"ws2d": "U"}, props=("C02",))
    REL += [f"{OPS}/ws2dwcv.py::ws2dwcv@{tag}", f"{OPS}/ws2dwcvp.py::ws2dwcvp@{tag}"]

"""C14 -- index safety and written-ness of every kernel, in *index abstraction* (variant "idx").

Preconditions are the documented contracts named by the property statement.  Float values do not
matter here: the obligations are `index`, `slice`, `shape`, `written` and call-site shape
preconditions; loops without data-dependent cursors are cut with the empty invariant (auto_cut).
"""
from hdcv.spec import contract, lemma
import contracts.ops_ws2d  # noqa: F401
import contracts.ops_lroo  # noqa: F401
import contracts.ops_zonal  # noqa: F401
import contracts.ops_tinterpolate  # noqa: F401

OPS = "hdc/algo/ops"
O = {"auto_cut": True, "div_obligations": False, "frame_obligations": False, "unroll_limit": 4, "valfn": False}
CHECKED = []      # contract keys (with @variant) verified for C14


def idx(path, name, params, requires=None, loops=None, result=None, modifies=None, track=None, variant="idx", options=None, **kw):
    o = dict(O)
    o.update(options or {})
    contract(f"{OPS}/{path}::{name}", variant=variant, params=params, requires=requires or {}, loops=loops or {}, result=result,
             modifies=modifies or [], track_written=track or [], options=o, props=("C14",), **kw)
    CHECKED.append(f"{OPS}/{path}::{name}@{variant}")


# ------------------------------------------------------------------ ws2d
# symbolic N >= 4 : the default contract (C01) carries the index obligations.
# N = 2 and N = 3 : executed with concrete shapes (Python/Numba negative indices wrap around: m-3 = -2 / -1 is a legal read).
for n in (2, 3):
    idx("ws2d.py", "ws2d", {"y": f"real[{n}]", "lmda": "real", "w": f"real[{n}]"}, result=f"real[{n}]", variant=f"n{n}")
# composed call-site contract used by the smoothers in variant idx: N >= 2 (justified by default + n2 + n3)
contract(f"{OPS}/ws2d.py::ws2d", variant="idx", params={"y": "real[N]", "lmda": "real", "w": "real[N]"}, result="real[N]",
         requires={"length": "N >= 2"}, options=dict(O), props=("C14",),
         note="call-site contract only: its index safety is the union of ws2d (N >= 4 symbolic), ws2d[n2], ws2d[n3]")

# ------------------------------------------------------------------ fixed-lambda smoothers
idx("ws2dgu.py", "ws2dgu", {"y": "real[N]", "lmda": "real", "nodata": "real", "out": "i2[N]"}, {"length": "N >= 2"},
    modifies=["out"], track=["out"])
idx("ws2dpgu.py", "ws2dpgu", {"y": "real[N]", "lmda": "real", "nodata": "real", "p": "real", "out": "i2[N]"}, {"length": "N >= 2"},
    modifies=["out"], track=["out"],
    loops={0: {"var": "_", "locals": {"ww": "real[N]"}, "invariant": {"shapes": "ww.size == N and z.size == N and znew.size == N and wa.size == N"}}})

# ------------------------------------------------------------------ V-curve family
VC_REQ = {"length": "N >= 2", "srange": "M >= 2"}
ARGMIN = {"invariant": {"k": "0 <= k and k < nl1"}}
idx("ws2doptv.py", "ws2doptv", {"y": "real[N]", "nodata": "real", "llas": "real[M]", "out": "i2[N]", "lopt": "real[1]"}, VC_REQ,
    modifies=["out", "lopt"], track=["out", "lopt"],
    loops={0: {"var": "ii", "invariant": {"n": "n >= 0"}}, 6: ARGMIN})
idx("ws2doptvp.py", "ws2doptvp", {"y": "real[N]", "nodata": "real", "p": "real", "llas": "real[M]", "out": "i2[N]", "lopt": "real[1]"}, VC_REQ,
    modifies=["out", "lopt"], track=["out", "lopt"],
    loops={9: ARGMIN})
idx("ws2doptvp.py", "_ws2doptvp", {"y": "real[N]", "w": "real[N]", "p": "real", "llas": "real[M]"}, VC_REQ,
    result=("real[N]", "real"), loops={8: ARGMIN})
for lc, var in (("const(0.7)", "idx"), ("const(0.2)", "idx_low"), ("real", "idx_sym")):
    idx("ws2doptvplc.py", "ws2doptvplc", {"y": "i2[N]", "nodata": "real", "p": "real", "lc": lc, "out": "i2[N]", "lopt": "real[1]"},
        {"length": "N >= 2"}, modifies=["out", "lopt"], track=["out", "lopt"], loops={9: ARGMIN}, variant=var)
idx("ws2doptvplc.py", "ws2doptvplc_tyx", {"tyx": "i2[NT, NR, NC]", "p": "real", "nodata": "int"}, {"length": "NT >= 2"},
    result=("i2[NT, NR, NC]", "real[NR, NC]"),
    loops={2: {"var": "i", "invariant": {"cnt": "0 <= ngood and ngood <= i"}}})

# ------------------------------------------------------------------ GCV family
GCV_REQ = {"length": "N >= 2", "srange": "M >= 2"}
for rb, var in (("const(False)", "idx"), ("const(True)", "idx_robust")):
    idx("ws2dwcv.py", "ws2dwcv", {"y": "real[N]", "nodata": "real", "llas": "real[M]", "robust": rb, "out": "i2[N]", "lopt": "real[1]"}, GCV_REQ,
        modifies=["out", "lopt"], track=["out", "lopt"], variant=var)
    idx("ws2dwcvp.py", "ws2dwcvp", {"y": "real[N]", "nodata": "real", "p": "real", "llas": "real[M]", "robust": rb, "out": "i2[N]", "lopt": "real[1]"}, GCV_REQ,
        modifies=["out", "lopt"], track=["out", "lopt"], variant=var)
    idx("ws2dwcvp.py", "_ws2dwcvp", {"y": "real[N]", "w": "real[N]", "p": "real", "llas": "real[M]", "robust": rb}, GCV_REQ,
        result=("real[N]", "real"), variant=var)

# ------------------------------------------------------------------ autocorrelation
idx("autocorr.py", "autocorr_1d_int", {"data": "i2[N1]", "nodata": "int"}, {"length": "N1 >= 2"}, result="real")
idx("autocorr.py", "autocorr_1d_float", {"data": "real[N1]"}, {"length": "N1 >= 2"}, result="real")
idx("autocorr.py", "autocorr_1d", {"data": "i2[N1]", "nodata": "int"}, {"length": "N1 >= 2"}, result="real")
idx("autocorr.py", "autocorr_1d", {"data": "real[N1]", "nodata": "None"}, {"length": "N1 >= 2"}, result="real", variant="idxf")
idx("autocorr.py", "autocorr", {"x": "i2[NR, NC, NT]", "nodata": "int"}, {"length": "NT >= 2"}, result="f4[NR, NC]")
idx("autocorr.py", "autocorr", {"x": "real[NR, NC, NT]", "nodata": "None"}, {"length": "NT >= 2"}, result="f4[NR, NC]", variant="idxf",
    call_variant={"autocorr_1d": "idxf"})
idx("autocorr.py", "autocorr_tyx", {"tyx": "i2[NT, NR, NC]", "nodata": "int"}, {"length": "NT >= 2"}, result="f4[NR, NC]")
idx("autocorr.py", "autocorr_tyx", {"tyx": "real[NT, NR, NC]", "nodata": "None"}, {"length": "NT >= 2"}, result="f4[NR, NC]", variant="idxf",
    call_variant={"autocorr_1d": "idxf"})

# ------------------------------------------------------------------ stats.py
S = "stats.py"
idx(S, "brentq", {"xa": "real", "xb": "real", "s": "real"}, result="real")
idx(S, "gammafit", {"x": "real[N]"}, result=("real", "real"))
idx(S, "gammastd", {"x": "real[T]", "nodata": "real", "cal_start": "int", "cal_stop": "int", "a": "const(0)", "b": "const(0)"},
    {}, result="real[T]", options={"slice_clamp": True})
idx(S, "gammastd_yxt", {"x": "real[R, C, T]", "nodata": "real", "cal_start": "int", "cal_stop": "int"},
    {"window": "0 <= cal_start and cal_start <= cal_stop and cal_stop <= T"}, result="i2[R, C, T]")
idx(S, "gammastd_yxt", {"x": "real[R, C, T]", "nodata": "real", "cal_start": "None", "cal_stop": "None"}, result="i2[R, C, T]", variant="idx_defaults")
idx(S, "gammastd_grp", {"xx": "real[N]", "groups": "i2[M]", "num_groups": "int", "nodata": "real", "cal_indices": "i2[G, P]", "yy": "i2[N]"},
    {"same_len": "M == N", "cal_shape": "G >= num_groups and P >= 2 and num_groups >= 0",
     "group_ids": "forall(i, 0, N, 0 <= groups[i] and groups[i] < num_groups)"},
    modifies=["yy"], track=["yy"],
    loops={0: {"var": "grp", "invariant": {"done": "forall(i, 0, N, implies(groups[i] < grp, written(yy, i)))", "range": "0 <= grp"}}},
    note="slices follow numpy's clamping semantics (option slice_clamp)")
idx(S, "mk_score", {"x": "real[N]"}, result=("int", "real"))
idx(S, "mk_variance_s", {"x": "real[N]"}, result="real")
idx(S, "mk_z_score", {"s": "int", "vs": "real"}, result="real")
idx(S, "mk_p_value", {"z": "real", "alpha": "const(0.05)"}, result=("real", "int"))
TRI = ("have", "tri", "n * (n - 1) - i * (2 * n - i - 1) == (n - i) * (n - i - 1)", {"backend": "ratfun"})
lemma("tri_bound", {"t": "int"}, ["t >= 2"], ["t * (t - 1) >= 2 * (t - 1)"])
lemma("tri_even", {"t": "int"}, ["t >= 0"], ["(t * (t - 1)) % 2 == 0"])
idx(S, "mk_sens_slope", {"x": "real[N]"}, {"length": "N >= 2"}, result=("real", "real"),
    loops={0: {"var": "i", "invariant": {"range": "0 <= i and n == N and 2 * nd == n * (n - 1)", "ix": "2 * ix == i * (2 * n - i - 1)"},
               "head_hints": [TRI, ("use", "tri_bound", {"t": "n - i"})]},
           1: {"var": "j", "invariant": {"range": "0 <= i and i < n - 1 and i + 1 <= j and n == N and 2 * nd == n * (n - 1)",
                                         "ix": "2 * ix == i * (2 * n - i - 1) + 2 * (j - i - 1)",
                                         "tri": "n * (n - 1) - i * (2 * n - i - 1) == (n - i) * (n - i - 1) and (n - i) * (n - i - 1) >= 2 * (n - i - 1)"}}},
    anchors={"after: nd =": [("use", "tri_even", {"t": "n"}), ("have", "nd_exact", "2 * nd == n * (n - 1)", {"nlabs": "first"})]})
idx(S, "mann_kendall_trend_1d", {"x": "real[N]"}, {"length": "N >= 2"}, result=("real", "real", "real", "int"))
idx(S, "mann_kendall_trend_yxt", {"x": "real[YS, XS, TS]"}, {"length": "TS >= 2"}, result="f4[YS, XS, 4]")
idx(S, "_mann_kendall_trend_gu", {"x": "real[N]", "tau": "f4[1]", "p": "f4[1]", "slope": "f4[1]", "trend": "i1[1]"}, {"length": "N >= 2"},
    modifies=["tau", "p", "slope", "trend"], track=["tau", "p", "slope", "trend"])
idx(S, "_mann_kendall_trend_gu_nd", {"x": "real[N]", "nodata": "real", "tau": "f4[1]", "p": "f4[1]", "slope": "f4[1]", "trend": "i1[1]"}, {"length": "N >= 2"},
    modifies=["tau", "p", "slope", "trend"], track=["tau", "p", "slope", "trend"])
W_ALL = "forall(k, 0, N, written(yy, k))"
idx(S, "rolling_sum", {"xx": "real[N]", "window_size": "int", "nodata": "real", "yy": "real[N]"}, {"window": "1 <= window_size and window_size <= N"},
    modifies=["yy"], track=["yy"],
    loops={0: {"var": "ii", "invariant": {"w": W_ALL, "n": "n == N"}}, 1: {"var": "jj", "invariant": {"w": W_ALL, "n": "n == N and 0 <= ii and ii < N and ii - window_size + 1 >= 0"}}})
idx(S, "mean_grp", {"xx": "real[N]", "groups": "i2[M]", "num_groups": "int", "nodata": "real", "yy": "real[N]"},
    {"same_len": "M == N", "group_ids": "forall(i, 0, N, 0 <= groups[i] and groups[i] < num_groups)"},
    modifies=["yy"], track=["yy"],
    loops={0: {"var": "grp", "locals": {"avg": "real"}, "invariant": {"done": "forall(i, 0, N, implies(groups[i] < grp, written(yy, i)))", "range": "0 <= grp"}},
           1: {"index": "k", "locals": {"avg": "real"}, "invariant": {"done": "forall(i, 0, N, implies(groups[i] < grp, written(yy, i)))", "range": "0 <= grp and grp < num_groups"}}})

# kernels whose default contracts already carry index + written obligations under the documented preconditions
DEFAULTS = [f"{OPS}/ws2d.py::ws2d", f"{OPS}/lroo.py::lroo", f"{OPS}/zonal.py::do_mean", f"{OPS}/zonal.py::do_mean@f64",
            f"{OPS}/tinterpolate.py::tinterpolate", "ghost:contracts/ghost_lroo.py::gap_lemma",
            "ghost:contracts/ghost_tint.py::cntpos_mono", "ghost:contracts/ghost_tint.py::rid_mono", "ghost:contracts/ghost_tint.py::future_run_empty"]

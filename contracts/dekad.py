"""C11 -- hdc/algo/dekad.py::Dekad: contracts on symbolic harnesses that execute the real class (see ghost_dekad.py)."""
from hdcv.spec import contract

from hdcv.spec import specfn

G = "ghost:contracts/ghost_dekad.py::"
# start instant of dekad k written from the statement (days 1 / 11 / 21 of month 1 + (k % 36) // 3 of year k // 36)
specfn("dk_start", "k:int", "int", [(None, "(ORD(k // 36, 1 + (k % 36) // 3) + 10 * (k % 3)) * 86400000000")])
DIM = "ite(m == 2, ite(y % 4 == 0 and (y % 100 != 0 or y % 400 == 0), 29, 28), ite(m == 4 or m == 6 or m == 9 or m == 11, 30, 31))"
RAWOK = "36 <= {k} and {k} < 36 * 10000 - 1"      # years 1..9999, the very last dekad excluded (its end date is outside datetime's range)
# calendar arithmetic over the ordinal axioms needs 2-10 s of z3 per obligation on an idle machine: a 60 s budget per encoding keeps
# the verdict independent of what else the machine is doing
O = {"frame_obligations": False, "by_id": [(r".", {"timeout": 60000})]}

contract(G + "membership", params={"y": "int", "m": "int", "d": "int", "us": "int"},
    requires={"date": f"1 <= y and y <= 9999 and 1 <= m and m <= 12 and 1 <= d and d <= {DIM}",
              "intra_day": "0 <= us and us < 86400000000",
              "not_the_last_dekad": "not (y == 9999 and m == 12 and d >= 21)"},
    options=O, props=("C11",))
contract(G + "abutment", params={"k": "int"}, requires={"range": RAWOK.format(k="k")}, options=O, props=("C11",),
    local_ensures={"start_is_spec": "abs_us(D.start_date) == dk_start(k) and abs_us(N.start_date) == dk_start(k + 1)"},
    ensures={"step": "dk_start(k) < dk_start(k + 1)"})
contract(G + "month_lengths", params={"y": "int", "m": "int"},
    requires={"range": "1 <= y and y <= 9999 and 1 <= m and m <= 12 and not (y == 9999 and m == 12)"}, options=O, props=("C11",))
contract(G + "inverses", params={"k": "int"}, requires={"range": "36 <= k and k < 36 * 10000"}, options=O, props=("C11",))
contract(G + "order", params={"a": "int", "b": "int"}, requires={"range": "36 <= a and a < 36 * 10000 and 36 <= b and b < 36 * 10000"}, options=O, props=("C11",),
    anchors={"after: B =": [("call", G + "start_mono", {"a": "ite(a <= b, a, b)", "b": "ite(a <= b, b, a)"}),
                            ("have", "start_a", "abs_us(A.start_date) == dk_start(a)"), ("have", "start_b", "abs_us(B.start_date) == dk_start(b)")]})
contract(G + "translations", params={"k": "int", "n": "int", "j": "int"},
    requires={"range": "36 <= k and k < 36 * 10000 and 36 <= k + n and k + n + 1 < 36 * 10000 and 36 <= j and j < 36 * 10000"}, options=O, props=("C11",))

SM = G + "start_mono"
contract(SM, params={"a": "int", "b": "int"}, requires={"range": "36 <= a and a <= b and b < 36 * 10000"},
    ensures={"mono": "dk_start(a) <= dk_start(b)", "strict": "implies(a < b, dk_start(a) < dk_start(b))"},
    loops={0: {"var": "s", "invariant": {"range": "a <= s", "mono": "dk_start(a) <= dk_start(s) and implies(a < s, dk_start(a) < dk_start(s))"},
               "head_hints": [("call", G + "abutment", {"k": "s"})]}},
    options=O, props=("C11",), note="ghost induction: chronological order follows the raw integer")

HARNESSES = [SM] + [G + h for h in ("membership", "abutment", "month_lengths", "inverses", "order", "translations")]

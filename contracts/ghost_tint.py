"""Ghost procedures for C20 (not part of /repo)."""


def cntpos_mono(w, a, b):
    """cntpos(w, a) <= cntpos(w, b) for a <= b."""
    for s in range(a, b):
        pass


def rid_mono(labels, a, b):
    """the run index never decreases: rid(labels, a) <= rid(labels, b) for a <= b."""
    for s in range(a, b):
        pass


def future_run_empty(z, labels, k, hi):
    """a run whose index is larger than the run of day hi-1 has no member among the days < hi."""
    for s in range(0, hi):
        pass

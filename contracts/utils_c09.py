"""C09 -- hdc/algo/utils.py::get_calibration_indices (ungrouped path): the window is exactly begin <= t <= end."""
from hdcv.spec import contract

contract("hdc/algo/utils.py::get_calibration_indices",
    params={"time": "int[N]", "calibration_range": "(int, int)", "groups": "None", "num_groups": "None"},
    result=("int", "int"),
    requires={"sorted_axis": "forall((i, j), implies(0 <= i and i <= j and j < N, time[i] <= time[j]))"},
    ensures={
        "window_is_inclusive_on_both_ends": "forall(t, 0, N, (result[0] <= t and t < result[1]) == (begin <= time[t] and time[t] <= end))",
        "bounds": "0 <= result[0] and result[0] <= N and 0 <= result[1] and result[1] <= N",
    },
    options={"frame_obligations": True},
    props=("C09",),
    note="time stamps as integers (ns since epoch); np.datetime64(str) parsing is assumed monotone; searchsorted(left/right) on a sorted array is an assumed numpy contract")

"""C17 -- hdc/algo/ops/stats.py::rolling_sum, mean_grp."""
from hdcv.spec import contract, specfn

S = "hdc/algo/ops/stats.py"

# sum / count of the valid (non-nodata) cells of a[lo:hi]
specfn("vsumv", "a:real[], nd:real, lo:int, hi:int", "real",
       [("hi <= lo", "0.0"), (None, "vsumv(a, nd, lo, hi - 1) + ite(a[hi - 1] == nd, 0.0, a[hi - 1])")])
specfn("cntv", "a:real[], nd:real, lo:int, hi:int", "int",
       [("hi <= lo", "0"), (None, "cntv(a, nd, lo, hi - 1) + ite(a[hi - 1] == nd, 0, 1)")])

# ------------------------------------------------------------------ rolling_sum
# Postcondition = the property's trichotomy, per position, written over the *window* of the input.
TRI = ("let(lo, k - window_size + 1, "
       "ite(forall(j, lo, k + 1, xx[j] != nodata), yy[k] == vsum(xx, lo, k + 1), "
       "ite(forall(j, lo, k + 1, xx[j] == nodata), yy[k] == nodata, "
       "yy[k] == nodata or yy[k] == vsumv(xx, nodata, lo, k + 1))))")

contract(f"{S}::rolling_sum",
    params={"xx": "real[N]", "window_size": "int", "nodata": "real", "yy": "real[N]"},
    modifies=["yy"],
    requires={"window": "window_size >= 1"},
    ensures={
        "incomplete_windows_are_nodata": "forall(k, 0, N, implies(k < window_size - 1, yy[k] == nodata))",
        "trichotomy": f"forall(k, 0, N, implies(k >= window_size - 1, {TRI}))",
    },
    loops={
        0: {"var": "ii", "invariant": {
            "range": "0 <= ii and ii <= N and n == N",
            "done_head": "forall(k, 0, ii, implies(k < window_size - 1, yy[k] == nodata))",
            "done": f"forall(k, 0, ii, implies(k >= window_size - 1, {TRI}))",
            "todo_zero": "forall(k, ii, N, yy[k] == 0.0)",
        }},
        1: {"var": "jj", "invariant": {
            "range": "ii - window_size + 1 <= jj and jj <= ii + 1 and 0 <= ii and ii < N and n == N and ii - window_size + 1 >= 0",
            "acc": "yy[ii] == vsumv(xx, nodata, ii - window_size + 1, jj)",
            "cnt": "n_valid == cntv(xx, nodata, ii - window_size + 1, jj) and n_valid >= 0",
            "allvalid": "implies(forall(j, ii - window_size + 1, jj, xx[j] != nodata), "
                        "vsumv(xx, nodata, ii - window_size + 1, jj) == vsum(xx, ii - window_size + 1, jj) and n_valid == jj - (ii - window_size + 1))",
            "allnodata": "implies(forall(j, ii - window_size + 1, jj, xx[j] == nodata), n_valid == 0)",
            "somevalid": "implies(exists(j, ii - window_size + 1, jj, xx[j] != nodata), n_valid > 0)",
            "frame_done_head": "forall(k, 0, ii, implies(k < window_size - 1, yy[k] == nodata))",
            "frame_done": f"forall(k, 0, ii, implies(k >= window_size - 1, {TRI}))",
            "frame_todo": "forall(k, ii + 1, N, yy[k] == 0.0)",
        }},
    },
    options={"nloops": 2},
    props=("C17", "C14"),
    note="window_size is float64 in the gufunc signature; the contract takes it as an integer (integral values are what the accessor passes)")

# ------------------------------------------------------------------ mean_grp
specfn("gsum", "a:real[], g:int[], grp:int, nd:real, hi:int", "real",
       [("hi <= 0", "0.0"), (None, "gsum(a, g, grp, nd, hi - 1) + ite(g[hi - 1] == grp and a[hi - 1] != nd, a[hi - 1], 0.0)")],
       doc="sum of the non-nodata cells of a[0:hi] whose label is grp")
specfn("gcnt", "a:real[], g:int[], grp:int, nd:real, hi:int", "int",
       [("hi <= 0", "0"), (None, "gcnt(a, g, grp, nd, hi - 1) + ite(g[hi - 1] == grp and a[hi - 1] != nd, 1, 0)")])

GG = "ghost:contracts/ghost_stats.py::group_gap"
contract(GG,
    params={"xx": "real[N]", "groups": "int[N]", "grp": "int", "nodata": "real", "a": "int", "b": "int"},
    requires={"order": "0 <= a and a <= b and b <= N", "gap": "forall(s, a, b, groups[s] != grp)"},
    ensures={"sum_flat": "gsum(xx, groups, grp, nodata, b) == gsum(xx, groups, grp, nodata, a)",
             "cnt_flat": "gcnt(xx, groups, grp, nodata, b) == gcnt(xx, groups, grp, nodata, a)"},
    loops={0: {"var": "s", "invariant": {
        "range": "a <= s",
        "sum": "gsum(xx, groups, grp, nodata, s) == gsum(xx, groups, grp, nodata, a)",
        "cnt": "gcnt(xx, groups, grp, nodata, s) == gcnt(xx, groups, grp, nodata, a)"}}},
    options={"frame_obligations": False}, props=("C17",), note="ghost lemma: positions of other groups do not contribute")

MEAN = ("ite(gcnt(xx, groups, groups[i], nodata, N) == 0, yy[i] == nodata, "
        "yy[i] == gsum(xx, groups, groups[i], nodata, N) / gcnt(xx, groups, groups[i], nodata, N))")
BND = "ite(k < positions(pix).size, positions(pix)[k], N)"   # first position not yet consumed

contract(f"{S}::mean_grp",
    params={"xx": "real[N]", "groups": "i2[M]", "num_groups": "int", "nodata": "real", "yy": "real[N]"},
    modifies=["yy"],
    requires={"same_len": "M == N"},
    ensures={
        "group_mean": f"forall(i, 0, N, implies(0 <= groups[i] and groups[i] < num_groups, {MEAN}))",
    },
    loops={
        0: {"var": "grp", "invariant": {
            "range": "0 <= grp",
            "done": f"forall(i, 0, N, implies(0 <= groups[i] and groups[i] < grp, {MEAN}))",
        }, "locals": {"avg": "real"}},
        1: {"index": "k", "locals": {"avg": "real"}, "invariant": {
            "range": "0 <= k and k <= pix.size and 0 <= grp and grp < num_groups and pix.size == positions(pix).size",
            "cnt": f"n == gcnt(xx, groups, grp, nodata, {BND}) and n >= 0",
            "sum": f"implies(n > 0, avg == gsum(xx, groups, grp, nodata, {BND}))",
            "zero": f"implies(n == 0, gsum(xx, groups, grp, nodata, {BND}) == 0.0)",
            "frame": f"forall(i, 0, N, implies(0 <= groups[i] and groups[i] < grp, {MEAN}))",
        },
            "entry_hints": [("call", GG, {"xx": "xx", "groups": "groups", "grp": "grp", "nodata": "nodata", "a": "0",
                                          "b": "ite(0 < positions(pix).size, positions(pix)[0], N)", "N": "N"})],
            "hints": [("call", GG, {"xx": "xx", "groups": "groups", "grp": "grp", "nodata": "nodata", "a": "positions(pix)[k] + 1",
                                    "b": "ite(k + 1 < positions(pix).size, positions(pix)[k + 1], N)", "N": "N"})],
        },
    },
    options={"nloops": 2, "div_obligations": True},
    props=("C17", "C14"),
    note="float32/int inputs and the float32 output are treated as reals (exact accumulation is an assumption)")

"""C04 -- V-curve selection as a functional contract (model R, pow / log / sqrt uninterpreted).

The statement is written over spec functions that restate the V-curve from the property text:
  WSI(y, l, w, n, i)  the i-th cell of the Whittaker curve ws2d(y, l, w) of length n   (uninterpreted: the solver enters through
                      its call-site contract ws2d@fn; what the curve *is* is C01's business)
  fsq(...)            sum of squared weighted residuals of that curve            (log fit  = log fsq)
  psq(...)            sum of squared second differences of that curve            (log pen  = log psq)
  VC(..., j)          distance between the (log fit, log pen) points of grid cells j and j+1 per unit log10 lambda
and the postcondition says: lopt is 10**midpoint of two consecutive grid entries K, K+1; VC(K) <= VC(j) for every j (first strict
minimum); the band is the rounding of the Whittaker curve at lopt with the validity weights.
"""
from hdcv.spec import contract, specfn
import contracts.ops_ws2d  # noqa: F401  (cntpos)

OPS = "hdc/algo/ops"
MFOCUS = {"only": ["inv:v", "inv:argmin", "inv:range", "inv:sizes", "inv:shapes", "let", "path", "range", "req"], "nlabs": "first"}
AFOCUS = {"only": ["inv:acc", "inv:z", "inv:diff", "inv:range", "range", "path"], "nlabs": "first"}

specfn("WSI", "y:real[], l:real, w:real[], n:int, i:int", "real", [], doc="cell i of ws2d(y, l, w), length n (uninterpreted)")
contract(f"{OPS}/ws2d.py::ws2d", variant="fn", fmodel="R", params={"y": "real[N]", "lmda": "real", "w": "real[N]"}, result="real[N]",
         requires={"length": "N >= 2"},
         ensures={"is_the_curve": "forall(i, 0, N, result[i] == WSI(y, lmda, w, N, i))"},
         options={"frame_obligations": False}, props=("C04",),
         note="call-site contract: names the result of the pure, deterministic solver as a function of its arguments")

specfn("nvalid", "y:real[], nd:real, hi:int", "int",
       [("hi <= 0", "0"), (None, "nvalid(y, nd, hi - 1) + ite(y[hi - 1] == nd, 0, 1)")], doc="number of cells < hi that differ from the nodata value")
specfn("fsq", "y:real[], l:real, w:real[], n:int, i:int", "real",
       [("i <= 0", "0.0"), (None, "fsq(y, l, w, n, i - 1) + (w[i - 1] * (y[i - 1] - WSI(y, l, w, n, i - 1))) * (w[i - 1] * (y[i - 1] - WSI(y, l, w, n, i - 1)))")],
       doc="sum over cells < i of (w (y - z))^2, z the curve at lambda l")
D2 = "((WSI(y, l, w, n, i + 1) - WSI(y, l, w, n, i)) - (WSI(y, l, w, n, i) - WSI(y, l, w, n, i - 1)))"
specfn("psq", "y:real[], l:real, w:real[], n:int, i:int", "real",
       [("i <= 0", "0.0"), (None, f"psq(y, l, w, n, i - 1) + {D2} * {D2}")],
       doc="sum over the second differences 0..i-1 of the curve at lambda l, squared")


def lam(j):
    return f"pow(10.0, llas[{j}])"


def FIT(j, W="w"):
    return f"log(fsq(y, {lam(j)}, {W}, N, N))"


def PEN(j, W="w"):
    return f"log(psq(y, {lam(j)}, {W}, N, N - 2))"


def VC(j, W="w"):
    j1 = f"({j}) + 1"
    return (f"(sqrt(({FIT(j1, W)} - {FIT(j, W)}) * ({FIT(j1, W)} - {FIT(j, W)}) + ({PEN(j1, W)} - {PEN(j, W)}) * ({PEN(j1, W)} - {PEN(j, W)}))"
            f" / (log(10.0) * (llas[1] - llas[0])))")


UNIT = "forall(k, 0, N, WG[k] == ite(y[k] == nodata, 0.0, 1.0))"
FITS_DONE = f"forall(q, 0, lix, fits[q] == {FIT('q')} and pens[q] == {PEN('q')})"
FITS_TODO = "forall(q, lix, M, fits[q] == 0.0 and pens[q] == 0.0)"
SHAPES = "fits.size == M and pens.size == M and z.size == N and diff1.size == N - 1 and lamids.size == M - 1 and v.size == M - 1 and w.size == N"
SAMEW = "n == nvalid(y, nodata, N)"
ZCUR = f"forall(k, 0, N, z[k] == WSI(y, {lam('lix')}, w, N, k))"

contract(f"{OPS}/ws2doptv.py::ws2doptv", variant="sel", fmodel="R",
    params={"y": "real[N]", "nodata": "real", "llas": "real[M]", "out": "i2[N]", "lopt": "real[1]"},
    modifies=["out", "lopt"],
    requires={"length": "N >= 4", "srange": "M >= 2", "integer_valued_input": "forall(i, 0, N, isint(y[i]))"},
    exit_hints=[("let", "WG", "w")],
    ensures={
        "weights": UNIT,
        "passthrough": "implies(nvalid(y, nodata, N) <= 1, lopt[0] == 0.0 and forall(i, 0, N, real(out[i]) == y[i]))",
    },
    # clauses about the smoothing path, stated over its locals (k: the selected grid cell); skipped on the pass-through path where
    # these locals do not exist (there nvalid <= 1 and `passthrough` applies)
    local_ensures={
        "midpoint": "0 <= k and k < M - 1 and lopt[0] == pow(10.0, (llas[k] + llas[k + 1]) / 2)",
        "minimal": f"forall(j, 0, M - 1, {VC('k')} <= {VC('j')})",
        "first_minimum": f"forall(j, 0, k, {VC('k')} < {VC('j')})",
        "band_is_fixed_lambda_curve": "implies(nvalid(y, nodata, N) > 1, forall(i, 0, N, out[i] == rint(WSI(y, lopt[0], w, N, i))))",
    },
    loops={
        0: {"var": "ii", "invariant": {"range": "0 <= ii and n == nvalid(y, nodata, ii) and w.size == N and m == N",
                                       "unit": "forall(k, 0, ii, w[k] == ite(y[k] == nodata, 0.0, 1.0))"}},
        1: {"var": "lix", "invariant": {"range": "0 <= lix and nl == M and nl1 == M - 1 and m == N and m1 == N - 1 and m2 == N - 2 and k == 0",
                                        "shapes": SHAPES, "w": SAMEW, "done": FITS_DONE, "todo": FITS_TODO}},
        2: {"var": "i", "invariant": {"range": "0 <= i and 0 <= lix and lix < M and nl == M and nl1 == M - 1 and m == N and m1 == N - 1 and m2 == N - 2 and k == 0",
                                      "shapes": SHAPES, "w": SAMEW, "z": ZCUR, "done": FITS_DONE, "todo": FITS_TODO.replace("forall(q, lix, M", "forall(q, lix + 1, M"),
                                      "acc": f"fits[lix] == fsq(y, {lam('lix')}, w, N, i) and pens[lix] == 0.0"},
            "by": {"pres/acc": AFOCUS}},
        3: {"var": "i", "invariant": {"range": "0 <= i and 0 <= lix and lix < M and nl == M and nl1 == M - 1 and m == N and m1 == N - 1 and m2 == N - 2 and k == 0",
                                      "shapes": SHAPES, "w": SAMEW, "z": ZCUR, "done": FITS_DONE, "todo": FITS_TODO.replace("forall(q, lix, M", "forall(q, lix + 1, M"),
                                      "fit": f"fits[lix] == {FIT('lix')} and pens[lix] == 0.0",
                                      "diff": "forall(k, 0, i, diff1[k] == z[k + 1] - z[k])"}},
        4: {"var": "i", "invariant": {"range": "0 <= i and 0 <= lix and lix < M and nl == M and nl1 == M - 1 and m == N and m1 == N - 1 and m2 == N - 2 and k == 0",
                                      "shapes": SHAPES, "w": SAMEW, "z": ZCUR, "done": FITS_DONE, "todo": FITS_TODO.replace("forall(q, lix, M", "forall(q, lix + 1, M"),
                                      "fit": f"fits[lix] == {FIT('lix')}",
                                      "diff": "forall(k, 0, N - 1, diff1[k] == z[k + 1] - z[k])",
                                      "acc": f"pens[lix] == psq(y, {lam('lix')}, w, N, i)"},
            "by": {"pres/acc": AFOCUS}},
        5: {"var": "i", "invariant": {"range": "0 <= i and nl == M and nl1 == M - 1 and m == N and k == 0 and llastep == llas[1] - llas[0]",
                                      "shapes": SHAPES, "w": SAMEW, "done": FITS_DONE.replace("forall(q, 0, lix", "forall(q, 0, M"),
                                      "v": f"forall(q, 0, i, v[q] == {VC('q')} and lamids[q] == (llas[q] + llas[q + 1]) / 2)"},
            "by": {"pres/v": {"only": ["inv:v", "inv:range", "inv:done", "range", "path"], "nlabs": "first"}}},
        6: {"var": "i", "invariant": {"range": "1 <= i and nl == M and nl1 == M - 1 and m == N",
                                      "shapes": SHAPES, "w": SAMEW,
                                      "v": f"forall(q, 0, M - 1, v[q] == {VC('q')} and lamids[q] == (llas[q] + llas[q + 1]) / 2)",
                                      "argmin": "0 <= k and k < i and k < nl1 and vmin == v[k] and forall(q, 0, i, implies(q < nl1, v[k] <= v[q])) and forall(q, 0, k, v[k] < v[q])"}},
    },
    options={"nloops": 7, "frame_obligations": False, "div_obligations": False, "by": {"midpoint": MFOCUS}},
    call_variant={"ws2d": "fn"}, props=("C04",), note="model R")


# ------------------------------------------------------------------------------------------------------------------------------
# asymmetric variants: ws2doptvp (gufunc), _ws2doptvp (jit helper used by the chunked drivers), ws2doptvplc (grid from lag-1 correlation).
# The envelope iteration is warm-started from the previous grid cell, so the (log fit, log pen) points are those of the curve the
# iteration holds at each grid cell; they are pinned down inside the loop (ghost `have`s: fits[lix] is the log of the weighted squared
# residuals of the current curve, pens[lix] the log of its squared second differences) and the postcondition speaks about the
# final arrays FG / PG / VG:  VG is the V-curve of (FG, PG), K its first strict minimum, lopt = 10**midpoint(K), and the band is the
# last reweighting step of the envelope iteration at lopt (same form as ws2dpgu's contract, C03).
specfn("fsz", "y:real[], w:real[], z:real[], i:int", "real",
       [("i <= 0", "0.0"), (None, "fsz(y, w, z, i - 1) + (w[i - 1] * (y[i - 1] - z[i - 1])) * (w[i - 1] * (y[i - 1] - z[i - 1]))")])
specfn("fszi", "y:int[], w:real[], z:real[], i:int", "real",
       [("i <= 0", "0.0"), (None, "fszi(y, w, z, i - 1) + (w[i - 1] * (y[i - 1] - z[i - 1])) * (w[i - 1] * (y[i - 1] - z[i - 1]))")])
DZ = "((z[i + 1] - z[i]) - (z[i] - z[i - 1]))"
specfn("psz", "z:real[], i:int", "real", [("i <= 0", "0.0"), (None, f"psz(z, i - 1) + {DZ} * {DZ}")])
specfn("nvalidi", "y:int[], nd:real, hi:int", "int",
       [("hi <= 0", "0"), (None, "nvalidi(y, nd, hi - 1) + ite(y[hi - 1] == nd, 0, 1)")])


VFOCUS = {"only": ["inv:v", "inv:range", "range", "path"], "nlabs": "first"}


def VCF(F, P, L, j):
    return (f"(sqrt(({F}[({j}) + 1] - {F}[{j}]) * ({F}[({j}) + 1] - {F}[{j}]) + ({P}[({j}) + 1] - {P}[{j}]) * ({P}[({j}) + 1] - {P}[{j}]))"
            f" / (log(10.0) * ({L}[1] - {L}[0])))")


def asym(path, name, kind, variant="sel", lc=None):
    """kind: 'gu' (ws2doptvp), 'jit' (_ws2doptvp), 'lc' (ws2doptvplc)"""
    gu = kind in ("gu", "lc")
    off = 1 if gu else 0
    LOPT = "lopt[0]" if gu else "lopt"
    FS = "fszi" if kind == "lc" else "fsz"
    NV = ("nvalidi" if kind == "lc" else "nvalid") + "(y, nodata, N)"
    guard = f"{NV} > 1" if gu else "True"
    consts = "nl == llas.size and nl1 == nl - 1 and m == N and m1 == N - 1 and m2 == N - 2 and p1 == 1 - p and nl >= 2"
    sizes = "fits.size == nl and pens.size == nl and z.size == N and znew.size == N and diff1.size == N - 1 and lamids.size == nl - 1 and v.size == nl - 1 and wa.size == N and ww.size == N and w.size == N"
    todo = lambda lo: f"forall(q, {lo}, nl, fits[q] == 0.0 and pens[q] == 0.0)"
    vdef = lambda hi: f"forall(q, 0, {hi}, v[q] == {VCF('fits', 'pens', 'llas', 'q')} and lamids[q] == (llas[q] + llas[q + 1]) / 2)"
    loops = {}
    if gu:
        loops[0] = {"var": "ii", "invariant": {"range": f"0 <= ii and n == {NV.replace(', N)', ', ii)')} and w.size == N and m == N",
                                               "unit": "forall(k, 0, ii, w[k] == ite(y[k] == nodata, 0.0, 1.0))"}}
    L = lambda i: i + off
    loops[L(0)] = {"var": "lix", "invariant": {"range": f"0 <= lix and k == 0 and {consts}", "sizes": sizes, "todo": todo("lix")}}
    loops[L(1)] = {"var": "i", "invariant": {"range": f"0 <= i and 0 <= lix and lix < nl and k == 0 and {consts}", "sizes": sizes}}
    loops[L(2)] = {"var": "j", "invariant": {"range": "0 <= j"}}
    loops[L(3)] = {"var": "j", "invariant": {"range": "0 <= j"}}
    loops[L(4)] = {"var": "i", "invariant": {"range": f"0 <= i and 0 <= lix and lix < nl and k == 0 and {consts}", "sizes": sizes, "todo": todo("lix + 1"),
                                             "acc": f"fits[lix] == {FS}(y, w, z, i) and pens[lix] == 0.0"}, "by": {"pres/acc": AFOCUS}}
    loops[L(5)] = {"var": "i", "invariant": {"range": "0 <= i", "diff": "forall(q, 0, i, diff1[q] == z[q + 1] - z[q])"}}
    loops[L(6)] = {"var": "i", "invariant": {"range": f"0 <= i and 0 <= lix and lix < nl and k == 0 and {consts}", "sizes": sizes, "todo": todo("lix + 1"),
                                             "acc": "pens[lix] == psz(z, i)"}, "by": {"pres/acc": AFOCUS}}
    loops[L(7)] = {"var": "i", "invariant": {"range": f"0 <= i and k == 0 and {consts} and llastep == llas[1] - llas[0]", "sizes": sizes, "v": vdef("i")},
                   "by": {"pres/v": dict(VFOCUS, prefer="noax") if kind == "lc" else VFOCUS}}
    loops[L(8)] = {"var": "i", "invariant": {"range": f"1 <= i and {consts}", "sizes": sizes,
                                             "argmin": "0 <= k and k < i and k < nl1 and vmin == v[k] and forall(q, 0, i, implies(q < nl1, v[k] <= v[q])) and forall(q, 0, k, v[k] < v[q])"}}
    WA = "ite(y[q] > ZP[q], p, 1 - p)"
    loops[L(9)] = {"var": "i", "ghost_assigned": ["ZP"], "invariant": {
        "range": "0 <= i and i <= 10 and ZP.size == N", "sizes": sizes,
        "weights": f"implies(i >= 1, forall(q, 0, N, ww[q] == w[q] * {WA}))"}}
    loops[L(10)] = {"var": "j", "invariant": {"range": "0 <= j", "sizes": sizes,
                                              "ww": "forall(q, 0, j, ww[q] == w[q] * ite(y[q] > z[q], p, 1 - p))"}}
    loops[L(11)] = {"var": "j", "invariant": {"range": "0 <= j"}}
    anchors = {
        "after: fits[lix] =": [("have", "fit_is_log_wsse", f"fits[lix] == log({FS}(y, w, z, N))")],
        "after: pens[lix] =": [("have", "pen_is_log_roughness", "pens[lix] == log(psz(z, N - 2))")],
        "after: znew[0:m] =": [("let", "ZP", "z.copy()"), ("have", "ww_def", f"forall(q, 0, N, ww[q] == w[q] * {WA})")],
    }
    RES_LOPT = "lopt[0]" if gu else "lopt"
    band_cell = "out[i] == rint(WSI(y, lopt[0], ww, N, i))" if gu else "z[i] == WSI(y, lopt, ww, N, i)"
    ensures = {}
    local = {
        "midpoint": f"0 <= k and k < nl - 1 and nl == llas.size and {RES_LOPT} == pow(10.0, (llas[k] + llas[k + 1]) / 2)",
        "vcurve": f"forall(j, 0, nl - 1, v[j] == {VCF('fits', 'pens', 'llas', 'j')})",
        "minimal": "forall(j, 0, nl - 1, v[k] <= v[j])",
        "first_minimum": "forall(j, 0, k, v[k] < v[j])",
        "band_is_last_envelope_step": f"forall(i, 0, N, ww[i] == w[i] * ite(y[i] > ZP[i], p, 1 - p) and {band_cell})",
    }
    params = {"y": "real[N]", "nodata": "real", "p": "real", "llas": "real[M]", "out": "i2[N]", "lopt": "real[1]"}
    requires = {"length": "N >= 4", "srange": "M >= 2", "envelope": "0 < p and p < 1", "integer_valued_input": "forall(i, 0, N, isint(y[i]))"}
    Z0 = "arr(k, N, 0.0)"
    entry = [("let", "ZP", Z0)]
    kw = {}
    if gu:
        ensures["weights"] = "forall(q, 0, N, WG[q] == ite(y[q] == nodata, 0.0, 1.0))"
        ensures["passthrough"] = f"implies({NV} <= 1, lopt[0] == 0.0 and forall(i, 0, N, real(out[i]) == y[i]))"
        kw = {"modifies": ["out", "lopt"]}
    if kind == "jit":
        params = {"y": "real[N]", "w": "real[N]", "p": "real", "llas": "real[M]"}
        requires = {"length": "N >= 4", "srange": "M >= 2", "envelope": "0 < p and p < 1"}
        kw = {"result": ("real[N]", "real")}
    if kind == "lc":
        params = {"y": "i2[N]", "nodata": "real", "p": "real", "lc": lc or "real", "out": "i2[N]", "lopt": "real[1]"}
        requires = {"length": "N >= 4", "envelope": "0 < p and p < 1"}
        local["grid_from_correlation"] = ("ite(lc > 0.5, llas.size == 16 and forall(q, 0, 16, llas[q] == -2 + q * 0.2), "
                                          "llas.size == 16 and forall(q, 0, 16, llas[q] == 0 + q * 0.2))")
    contract(f"{OPS}/{path}::{name}", variant=variant, fmodel="R", params=params, requires=requires, entry_hints=entry,
             exit_hints=[("let", "WG", "w")], ensures=ensures, local_ensures=local, anchors=anchors, loops=loops,
             options={"nloops": 12 + off, "frame_obligations": False, "div_obligations": False, "by": {"midpoint": MFOCUS}},
             call_variant={"ws2d": "fn"}, props=("C04",), note="model R", **kw)
    return f"{OPS}/{path}::{name}@{variant}"


SEL = [f"{OPS}/ws2doptv.py::ws2doptv@sel",
       asym("ws2doptvp.py", "ws2doptvp", "gu"),
       asym("ws2doptvp.py", "_ws2doptvp", "jit"),
       asym("ws2doptvplc.py", "ws2doptvplc", "lc")]

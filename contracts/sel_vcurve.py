"""C04 -- V-curve selection as a functional contract (model R, pow / log / sqrt uninterpreted).

The statement is written over spec functions that restate the V-curve from the property text:
  WSI(y, l, w, n, i)  the i-th cell of the Whittaker curve ws2d(y, l, w) of length n   (uninterpreted: the solver enters through
                      its call-site contract ws2d@fn; what the curve *is* is C01's business)
  fsq(...)            sum of squared weighted residuals of that curve            (log fit  = log fsq)
  psq(...)            sum of squared second differences of that curve            (log pen  = log psq)
  VC(..., j)          distance between the (log fit, log pen) points of grid cells j and j+1 per unit log10 lambda
and the postcondition says: lopt is 10**midpoint of two consecutive grid entries K, K+1; VC(K) <= VC(j) for every j (first strict
minimum); the band is the rounding of the Whittaker curve at lopt with the validity weights.
"""
from hdcv.spec import contract, specfn
import contracts.ops_ws2d  # noqa: F401  (cntpos)

OPS = "hdc/algo/ops"

specfn("WSI", "y:real[], l:real, w:real[], n:int, i:int", "real", [], doc="cell i of ws2d(y, l, w), length n (uninterpreted)")
contract(f"{OPS}/ws2d.py::ws2d", variant="fn", fmodel="R", params={"y": "real[N]", "lmda": "real", "w": "real[N]"}, result="real[N]",
         requires={"length": "N >= 2"},
         ensures={"is_the_curve": "forall(i, 0, N, result[i] == WSI(y, lmda, w, N, i))"},
         options={"frame_obligations": False}, props=("C04",),
         note="call-site contract: names the result of the pure, deterministic solver as a function of its arguments")

specfn("nvalid", "y:real[], nd:real, hi:int", "int",
       [("hi <= 0", "0"), (None, "nvalid(y, nd, hi - 1) + ite(y[hi - 1] == nd, 0, 1)")], doc="number of cells < hi that differ from the nodata value")
specfn("fsq", "y:real[], l:real, w:real[], n:int, i:int", "real",
       [("i <= 0", "0.0"), (None, "fsq(y, l, w, n, i - 1) + (w[i - 1] * (y[i - 1] - WSI(y, l, w, n, i - 1))) * (w[i - 1] * (y[i - 1] - WSI(y, l, w, n, i - 1)))")],
       doc="sum over cells < i of (w (y - z))^2, z the curve at lambda l")
D2 = "((WSI(y, l, w, n, i + 1) - WSI(y, l, w, n, i)) - (WSI(y, l, w, n, i) - WSI(y, l, w, n, i - 1)))"
specfn("psq", "y:real[], l:real, w:real[], n:int, i:int", "real",
       [("i <= 0", "0.0"), (None, f"psq(y, l, w, n, i - 1) + {D2} * {D2}")],
       doc="sum over the second differences 0..i-1 of the curve at lambda l, squared")


def lam(j):
    return f"pow(10.0, llas[{j}])"


def FIT(j, W="w"):
    return f"log(fsq(y, {lam(j)}, {W}, N, N))"


def PEN(j, W="w"):
    return f"log(psq(y, {lam(j)}, {W}, N, N - 2))"


def VC(j, W="w"):
    j1 = f"({j}) + 1"
    return (f"(sqrt(({FIT(j1, W)} - {FIT(j, W)}) * ({FIT(j1, W)} - {FIT(j, W)}) + ({PEN(j1, W)} - {PEN(j, W)}) * ({PEN(j1, W)} - {PEN(j, W)}))"
            f" / (log(10.0) * (llas[1] - llas[0])))")


UNIT = "forall(k, 0, N, WG[k] == ite(y[k] == nodata, 0.0, 1.0))"
FITS_DONE = f"forall(q, 0, lix, fits[q] == {FIT('q')} and pens[q] == {PEN('q')})"
FITS_TODO = "forall(q, lix, M, fits[q] == 0.0 and pens[q] == 0.0)"
SHAPES = "fits.size == M and pens.size == M and z.size == N and diff1.size == N - 1 and lamids.size == M - 1 and v.size == M - 1 and w.size == N"
SAMEW = "n == nvalid(y, nodata, N)"
ZCUR = f"forall(k, 0, N, z[k] == WSI(y, {lam('lix')}, w, N, k))"

contract(f"{OPS}/ws2doptv.py::ws2doptv", variant="sel", fmodel="R",
    params={"y": "real[N]", "nodata": "real", "llas": "real[M]", "out": "i2[N]", "lopt": "real[1]"},
    modifies=["out", "lopt"],
    requires={"length": "N >= 4", "srange": "M >= 2", "integer_valued_input": "forall(i, 0, N, isint(y[i]))"},
    entry_hints=[("let", "K", "0")],
    exit_hints=[("let", "WG", "w")],
    ensures={
        "weights": UNIT,
        "midpoint": "implies(nvalid(y, nodata, N) > 1, 0 <= K and K < M - 1 and lopt[0] == pow(10.0, (llas[K] + llas[K + 1]) / 2))",
        "minimal": f"implies(nvalid(y, nodata, N) > 1, forall(j, 0, M - 1, {VC('K', 'WG')} <= {VC('j', 'WG')}))",
        "first_minimum": f"implies(nvalid(y, nodata, N) > 1, forall(j, 0, K, {VC('K', 'WG')} < {VC('j', 'WG')}))",
        "band_is_fixed_lambda_curve": "implies(nvalid(y, nodata, N) > 1, forall(i, 0, N, out[i] == rint(WSI(y, lopt[0], WG, N, i))))",
        "passthrough": "implies(nvalid(y, nodata, N) <= 1, lopt[0] == 0.0 and forall(i, 0, N, real(out[i]) == y[i]))",
    },
    anchors={
        "after: lopt[0] = pow(10, lamids[k])": [("let", "K", "k")],
    },
    loops={
        0: {"var": "ii", "invariant": {"range": "0 <= ii and n == nvalid(y, nodata, ii) and w.size == N and m == N",
                                       "unit": "forall(k, 0, ii, w[k] == ite(y[k] == nodata, 0.0, 1.0))"}},
        1: {"var": "lix", "invariant": {"range": "0 <= lix and nl == M and nl1 == M - 1 and m == N and m1 == N - 1 and m2 == N - 2 and k == 0",
                                        "shapes": SHAPES, "w": SAMEW, "done": FITS_DONE, "todo": FITS_TODO}},
        2: {"var": "i", "invariant": {"range": "0 <= i and 0 <= lix and lix < M and nl == M and nl1 == M - 1 and m == N and m1 == N - 1 and m2 == N - 2 and k == 0",
                                      "shapes": SHAPES, "w": SAMEW, "z": ZCUR, "done": FITS_DONE, "todo": FITS_TODO.replace("forall(q, lix, M", "forall(q, lix + 1, M"),
                                      "acc": f"fits[lix] == fsq(y, {lam('lix')}, w, N, i) and pens[lix] == 0.0"}},
        3: {"var": "i", "invariant": {"range": "0 <= i and 0 <= lix and lix < M and nl == M and nl1 == M - 1 and m == N and m1 == N - 1 and m2 == N - 2 and k == 0",
                                      "shapes": SHAPES, "w": SAMEW, "z": ZCUR, "done": FITS_DONE, "todo": FITS_TODO.replace("forall(q, lix, M", "forall(q, lix + 1, M"),
                                      "fit": f"fits[lix] == {FIT('lix')} and pens[lix] == 0.0",
                                      "diff": "forall(k, 0, i, diff1[k] == z[k + 1] - z[k])"}},
        4: {"var": "i", "invariant": {"range": "0 <= i and 0 <= lix and lix < M and nl == M and nl1 == M - 1 and m == N and m1 == N - 1 and m2 == N - 2 and k == 0",
                                      "shapes": SHAPES, "w": SAMEW, "z": ZCUR, "done": FITS_DONE, "todo": FITS_TODO.replace("forall(q, lix, M", "forall(q, lix + 1, M"),
                                      "fit": f"fits[lix] == {FIT('lix')}",
                                      "diff": "forall(k, 0, N - 1, diff1[k] == z[k + 1] - z[k])",
                                      "acc": f"pens[lix] == psq(y, {lam('lix')}, w, N, i)"}},
        5: {"var": "i", "invariant": {"range": "0 <= i and nl == M and nl1 == M - 1 and m == N and k == 0 and llastep == llas[1] - llas[0]",
                                      "shapes": SHAPES, "w": SAMEW, "done": FITS_DONE.replace("forall(q, 0, lix", "forall(q, 0, M"),
                                      "v": f"forall(q, 0, i, v[q] == {VC('q')} and lamids[q] == (llas[q] + llas[q + 1]) / 2)"}},
        6: {"var": "i", "invariant": {"range": "1 <= i and nl == M and nl1 == M - 1 and m == N",
                                      "shapes": SHAPES, "w": SAMEW,
                                      "v": f"forall(q, 0, M - 1, v[q] == {VC('q')} and lamids[q] == (llas[q] + llas[q + 1]) / 2)",
                                      "argmin": "0 <= k and k < i and k < nl1 and vmin == v[k] and forall(q, 0, i, implies(q < nl1, v[k] <= v[q])) and forall(q, 0, k, v[k] < v[q])"}},
    },
    options={"nloops": 7, "frame_obligations": False, "div_obligations": False},
    call_variant={"ws2d": "fn"}, props=("C04",), note="model R")

"""C07 / C08 -- gamma SPI kernels in hdc/algo/ops/stats.py (model R, special functions uninterpreted)."""
from hdcv.spec import contract, specfn

S = "hdc/algo/ops/stats.py"

specfn("cz", "x:real[], nd:real, hi:int", "int",
       [("hi <= 0", "0"), (None, "cz(x, nd, hi - 1) + ite(x[hi - 1] != nd and x[hi - 1] == 0, 1, 0)")], doc="zeros among the non-nodata cells")
specfn("cv", "x:real[], nd:real, hi:int", "int",
       [("hi <= 0", "0"), (None, "cv(x, nd, hi - 1) + ite(x[hi - 1] != nd and x[hi - 1] >= 0, 1, 0)")], doc="valid (non-nodata, >= 0) cells")
specfn("npos", "x:real[], hi:int", "int", [("hi <= 0", "0"), (None, "npos(x, hi - 1) + ite(x[hi - 1] > 0, 1, 0)")])
specfn("spos", "x:real[], hi:int", "real", [("hi <= 0", "0.0"), (None, "spos(x, hi - 1) + ite(x[hi - 1] > 0, x[hi - 1], 0.0)")])
specfn("lpos", "x:real[], hi:int", "real", [("hi <= 0", "0.0"), (None, "lpos(x, hi - 1) + ite(x[hi - 1] > 0, log(x[hi - 1]), 0.0)")])

contract(f"{S}::brentq", params={"xa": "real", "xb": "real", "s": "real"}, result="real",
    options={"auto_cut": True, "div_obligations": False, "unroll_limit": 4}, props=("C07", "C08"),
    note="call-site contract: returns a float. The float divisions of the secant/extrapolation steps are not proved non-zero (uninterpreted objective); bounded stand-in")

contract(f"{S}::gammafit",
    params={"x": "real[N]"}, result=("real", "real"),
    ensures={"failed_or_usable": "(result[0] == 0 and result[1] == 0) or result[0] != 0"},
    local_ensures={
        # the MLE equation log(a) - digamma(a) = log(mean) - mean(log) is fed with the positive values only
        "positives_only": "implies(n > 0, n == npos(x, N) and xts == spos(x, N) and logs == lpos(x, N))",
        "no_positive_value_fails": "implies(npos(x, N) == 0, result[0] == 0 and result[1] == 0)",
        # the statistic of the MLE equation and the root bracket (Thom's closed-form estimate of the shape, +-40 %) -- clauses over
        # locals, evaluated on the paths that compute them
        "mle_statistic": "s == log(xts / n) - logs / n",
        "thom_bracket": "a_est == (3 - s + sqrt((s - 3) * (s - 3) + 24 * s)) / (12 * s) and xa == a_est * (1 - 0.4) and xb == a_est * (1 + 0.4)",
        "scale_is_mean_over_shape": "implies(a != 0, result[0] == a and result[1] == (xts / n) / a)",
    },
    loops={0: {"index": "t", "invariant": {"range": "0 <= t", "acc": "n == npos(x, t) and xts == spos(x, t) and logs == lpos(x, t) and n >= 0"}}},
    assumes={},
    options={"nloops": 1},
    props=("C07", "C08"), note="divisions by n, 12*s and a are guarded (div obligations); xtsbar > 0 for positive data is not needed")

FORMULA = "ndtri(p_zero + (1 - p_zero) * gammainc(alpha, x[i] / beta))"
contract(f"{S}::gammastd",
    params={"x": "real[T]", "nodata": "real", "cal_start": "int", "cal_stop": "int", "a": "const(0)", "b": "const(0)"}, result="real[T]",
    requires={"window": "0 <= cal_start and cal_start <= cal_stop and cal_stop <= T"},
    ensures={
        "shape": "result.size == T",
        "nodata_and_negative_cells": "forall(i, 0, T, implies(x[i] == nodata or x[i] < 0, result[i] == nodata))",
        "no_valid_cell": "implies(cv(x, nodata, T) == 0, forall(i, 0, T, result[i] == nodata))",
        "too_many_zeros": "implies(cv(x, nodata, T) > 0 and real(cz(x, nodata, T)) / cv(x, nodata, T) > 0.9, forall(i, 0, T, result[i] == nodata))",
    },
    entry_hints=[("let", "FIT", "0")],
    anchors={"after: alpha, beta = gammafit(...": [("let", "FIT", "1")]},
    local_ensures={
        "zero_share": "implies(cv(x, nodata, T) > 0, p_zero == real(cz(x, nodata, T)) / cv(x, nodata, T))",
        # without overrides (a = b = 0) the parameters come from the fit on the calibration window, and every valid cell of the result is
        # the normal quantile of the zero-mixture gamma probability of its observation
        "fitted_on_the_window": "implies(cv(x, nodata, T) > 0 and p_zero <= 0.9, FIT == 1)",
        "formula": f"implies(alpha != 0 and beta != 0, forall(i, 0, T, implies(x[i] != nodata and x[i] >= 0, result[i] == {FORMULA})))",
    },
    loops={0: {"index": "kx", "invariant": {"range": "0 <= kx", "counts": "n_zero == cz(x, nodata, kx) and n_valid == cv(x, nodata, kx) and 0 <= n_zero and n_zero <= n_valid"}},
           1: {"var": "ix", "invariant": {
               "range": "0 <= ix and t == T",
               "done": f"forall(i, 0, ix, ite(x[i] != nodata and x[i] >= 0, y[i] == {FORMULA}, y[i] == nodata))",
               "todo": "forall(i, ix, T, y[i] == nodata)"}}},
    options={"nloops": 2},
    props=("C07", "C08", "C14"),
    note="valid cells: y = ndtri(p0 + (1-p0) * gammainc(alpha, x/beta)) with (alpha, beta) fitted on x[cal_start:cal_stop] (loop invariant `done`)")

INR = "-32768 <= {v} and {v} <= 32767"
for variant, cs in (("default", "int"), ("defaults", "None")):
    contract(f"{S}::gammastd_yxt", variant=variant,
        params={"x": "real[R, C, T]", "nodata": "real", "cal_start": cs, "cal_stop": cs}, result="i2[R, C, T]",
        requires=dict({"nodata_is_int16": "isint(nodata) and -32768 <= nodata and nodata <= 32767"},
                      **({"window": "0 <= cal_start and cal_start <= cal_stop and cal_stop <= T"} if cs == "int" else {})),
        ensures={"shape": "result.shape[0] == R and result.shape[1] == C and result.shape[2] == T"},
        loops={0: {"var": "ri", "invariant": {"range": "0 <= ri and r == R and c == C and t == T"}},
               1: {"var": "ci", "invariant": {"range": "0 <= ci and 0 <= ri and ri < R and r == R and c == C and t == T"}},
               2: {"var": "ti", "invariant": {"range": "0 <= ti and 0 <= ri and ri < R and 0 <= ci and ci < C and r == R and c == C and t == T and s.size == T",
                                              "scaled_in_int16": "forall(k, 0, ti, s[k] == nodata or (" + INR.format(v="s[k]") + "))"}}},
        options={"nloops": 3, "cast_obligations": True},
        props=("C08", "C14"),
        note="every float64 -> int16 store is a cast obligation: SPI*1000 is saturated at the int16 limits before the store")

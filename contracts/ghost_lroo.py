"""Ghost procedures (lemmas proved by the same engine) for C18.  Not part of /repo."""


def gap_lemma(data, a, b):
    """Between positions a and b (exclusive) no cell equals 1: runlen/best are flat on the gap."""
    for s in range(a + 1, b):
        pass

"""Spec functions shared by several sidecars."""
from hdcv.spec import specfn

specfn("vsum", "a:real[], lo:int, hi:int", "real",
       [("hi <= lo", "0.0"), (None, "vsum(a, lo, hi - 1) + a[hi - 1]")],
       doc="sum of a[lo:hi] (left fold, the order a += loop uses)")
specfn("isum", "a:int[], lo:int, hi:int", "int",
       [("hi <= lo", "0"), (None, "isum(a, lo, hi - 1) + a[hi - 1]")])
specfn("cnt_true", "a:bool[], lo:int, hi:int", "int",
       [("hi <= lo", "0"), (None, "cnt_true(a, lo, hi - 1) + ite(a[hi - 1], 1, 0)")])
specfn("cnteq", "x:real[], v:real, hi:int", "int",
       [("hi <= 0", "0"), (None, "cnteq(x, v, hi - 1) + ite(x[hi - 1] == v, 1, 0)")], doc="number of cells < hi equal to v")

"""Sidecar contracts for /repo functions (no edit of /repo)."""

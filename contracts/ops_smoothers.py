"""C03 (+C14) -- fixed-lambda smoothers ws2dgu / ws2dpgu (model R)."""
from hdcv.spec import contract, specfn
import contracts.ops_ws2d  # noqa: F401

S01 = "ghost:contracts/ghost_smooth.py::sum01_is_count"
contract(S01, params={"w": "real[N]", "n": "int"},
    requires={"len": "0 <= n and n <= N", "zero_one": "forall(i, 0, N, w[i] == 0 or w[i] == 1)"},
    ensures={"sum_is_count": "vsum(w, 0, n) == cntpos(w, n)"},
    loops={0: {"var": "s", "invariant": {"range": "0 <= s", "eq": "vsum(w, 0, s) == cntpos(w, s)"}}},
    options={"frame_obligations": False}, props=("C03",))
CS = "ghost:contracts/ghost_smooth.py::cntpos_same"
contract(CS, params={"w1": "real[N]", "w2": "real[N]", "n": "int"},
    requires={"len": "0 <= n and n <= N", "same_support": "forall(i, 0, N, (w1[i] > 0) == (w2[i] > 0))"},
    ensures={"same_count": "cntpos(w1, n) == cntpos(w2, n)"},
    loops={0: {"var": "s", "invariant": {"range": "0 <= s", "eq": "cntpos(w1, s) == cntpos(w2, s)"}}},
    options={"frame_obligations": False}, props=("C03",))

MISSING = "(y[k] == nodata or isnan(y[k]) or isinf(y[k]))"
V = f"arr(k, N, ite({MISSING}, 0.0, 1.0))"      # unit weight on valid cells, written from the statement

contract("hdc/algo/ops/ws2dgu.py::ws2dgu",
    params={"y": "real[N]", "lmda": "real", "nodata": "real", "out": "i2[N]"},
    modifies=["out"], track_written=["out"],
    requires={"length": "N >= 4", "lambda": "lmda >= 0", "integer_valued_input": "forall(i, 0, N, isint(y[i]))"},
    entry_hints=[("let", "VW", V), ("let", "ZC", "y")],
    ensures={
        "smoothed": "implies(lmda != 0 and cntpos(VW, N) > 1, "
                    "forall(i, 0, N, rowA(VW, lmda, ZC, i, N) == VW[i] * y[i] and out[i] == rint(ZC[i])))",
        "passthrough": "implies(lmda == 0 or cntpos(VW, N) <= 1, forall(i, 0, N, real(out[i]) == y[i]))",
    },
    anchors={
        "after: w =": [("have", "w_is_unit_weight", "forall(i, 0, N, w[i] == VW[i])"),
                       ("call", S01, {"w": "w", "n": "N", "N": "N"}),
                       ("call", CS, {"w1": "w", "w2": "VW", "n": "N", "N": "N"})],
        "after: z =": [("let", "ZC", "z")],
    },
    options={"nloops": 0, "by_id": [(r"/post/smoothed", {"nlabs": "first"})]},
    props=("C03", "C14"), note="model R")

WA = "ite(y[k] > ZP[k], p, 1 - p)"
contract("hdc/algo/ops/ws2dpgu.py::ws2dpgu",
    params={"y": "real[N]", "lmda": "real", "nodata": "real", "p": "real", "out": "i2[N]"},
    modifies=["out"], track_written=["out"],
    requires={"length": "N >= 4", "lambda": "lmda >= 0", "envelope": "0 < p and p < 1", "integer_valued_input": "forall(i, 0, N, isint(y[i]))"},
    entry_hints=[("let", "VW", V), ("let", "ZC", "y"), ("let", "ZP", "y"), ("let", "WWG", "y")],
    ensures={
        # last reweighting step: cells above the previous curve ZP weigh p, the others 1-p (times the unit validity weight);
        # ZC solves the weighted normal equations for these weights and out is its rounding
        "expectile_step": "implies(lmda != 0 and cntpos(VW, N) > 1, "
                          "forall(i, 0, N, WWG[i] == VW[i] * ite(y[i] > ZP[i], p, 1 - p) "
                          "and rowA(WWG, lmda, ZC, i, N) == WWG[i] * y[i] and out[i] == rint(ZC[i])))",
        "passthrough": "implies(lmda == 0 or cntpos(VW, N) <= 1, forall(i, 0, N, real(out[i]) == y[i]))",
    },
    anchors={
        "after: w =": [("have", "w_is_unit_weight", "forall(i, 0, N, w[i] == VW[i])"),
                       ("call", S01, {"w": "w", "n": "N", "N": "N"}),
                       ("call", CS, {"w1": "w", "w2": "VW", "n": "N", "N": "N"})],
        "after: ww =": [("let", "ZP", "z.copy()"),
                        ("have", "ww_def", f"forall(k, 0, N, ww[k] == VW[k] * {WA})"),
                        ("call", CS, {"w1": "ww", "w2": "VW", "n": "N", "N": "N"})],
        "after: z = ws2d(y, lmda, ww)": [("let", "ZC", "z"), ("let", "WWG", "ww")],
    },
    loops={0: {"var": "_", "ghost_assigned": ["ZP"], "locals": {"ww": "real[N]"}, "invariant": {
        "range": "0 <= _ and _ <= 10",
        "weights": f"implies(_ >= 1, forall(k, 0, N, ww[k] == VW[k] * {WA}) and cntpos(ww, N) == cntpos(VW, N))",
        "shapes": "ww.size == N and z.size == N and znew.size == N and wa.size == N and ZP.size == N",
    }}},
    options={"nloops": 1, "by": {"expectile_step": {"only": ["have", "call:", "let", "req", "inv:weights", "range", "path"], "prefer": "/noax"}}},
    props=("C03", "C14"), note="model R; the IRLS loop is cut at an invariant that keeps only what the final solve needs (weights of the last pass)")

"""C15 -- hdc/algo/ops/autocorr.py: lag-1 autocorrelation = Pearson correlation with mean-filled gaps."""
from hdcv.spec import contract, specfn

P = "hdc/algo/ops/autocorr.py"

# sums over the valid cells of X = a[0:N] (off=0) and Y = a[1:N+1] (off=1); v = validity of each cell
specfn("s1", "a:real[], v:bool[], off:int, hi:int", "real",
       [("hi <= 0", "0.0"), (None, "s1(a, v, off, hi - 1) + ite(v[hi - 1 + off], a[hi - 1 + off], 0.0)")])
specfn("s2", "a:real[], v:bool[], off:int, hi:int", "real",
       [("hi <= 0", "0.0"), (None, "s2(a, v, off, hi - 1) + ite(v[hi - 1 + off], a[hi - 1 + off] * a[hi - 1 + off], 0.0)")])
specfn("c1", "v:bool[], off:int, hi:int", "int",
       [("hi <= 0", "0"), (None, "c1(v, off, hi - 1) + ite(v[hi - 1 + off], 1, 0)")])
specfn("pxy", "a:real[], v:bool[], hi:int", "real",
       [("hi <= 0", "0.0"), (None, "pxy(a, v, hi - 1) + ite(v[hi - 1] and v[hi], a[hi - 1] * a[hi], 0.0)")])
specfn("px", "a:real[], v:bool[], off:int, hi:int", "real",
       [("hi <= 0", "0.0"), (None, "px(a, v, off, hi - 1) + ite(v[hi - 1] and v[hi], a[hi - 1 + off], 0.0)")])
specfn("pc", "v:bool[], hi:int", "int",
       [("hi <= 0", "0"), (None, "pc(v, hi - 1) + ite(v[hi - 1] and v[hi], 1, 0)")])
# the statement's definition: missing cells replaced by the mean (mx, my) of the valid cells of that vector
specfn("covmf", "a:real[], v:bool[], mx:real, my:real, hi:int", "real",
       [("hi <= 0", "0.0"),
        (None, "covmf(a, v, mx, my, hi - 1) + (ite(v[hi - 1], a[hi - 1], mx) - mx) * (ite(v[hi], a[hi], my) - my)")],
       doc="sum over i < hi of (X~_i - mean X~)(Y~_i - mean Y~) for the mean-filled vectors")
specfn("varmf", "a:real[], v:bool[], off:int, m:real, hi:int", "real",
       [("hi <= 0", "0.0"),
        (None, "varmf(a, v, off, m, hi - 1) + (ite(v[hi - 1 + off], a[hi - 1 + off], m) - m) * (ite(v[hi - 1 + off], a[hi - 1 + off], m) - m)")])


def LOC(*tags):
    return {"only": list(tags) + ["range", "inv:range", "path", "let"], "nlabs": False, "prefer": "recfun"}


UNF = {"only": ["range", "inv:range", "let"]}


def LOC0(*tags):
    return {"only": list(tags) + ["range", "inv:range", "path", "let"]}


def make(name, valid, params, requires):
    A = "arr(k, N1, real(data[k]))"
    V = f"arr(k, N1, {valid})"
    GA = f"s1({A}, {V}, 0, N) / c1({V}, 0, N)"
    GB = f"s1({A}, {V}, 1, N) / c1({V}, 1, N)"
    inv = {
        "range": "0 <= i and i <= N and N == N1 - 1",
        "Sx": f"Sx == s1(DA, DV, 0, i) and Sxx == s2(DA, DV, 0, i) and nx == c1(DV, 0, i) and nx >= 0",
        "Sy": f"Sy == s1(DA, DV, 1, i) and Syy == s2(DA, DV, 1, i) and ny == c1(DV, 1, i) and ny >= 0",
        "pairs": "Sxy == pxy(DA, DV, i) and Sx_ == px(DA, DV, 0, i) and Sy_ == px(DA, DV, 1, i) and nxy == pc(DV, i) and nxy >= 0 and nxy <= nx and nxy <= ny",
        "bridge_cov": "Sxy - GA * Sy_ - GB * Sx_ + nxy * GA * GB == covmf(DA, DV, GA, GB, i)",
        "bridge_vx": "Sxx - 2 * GA * Sx + nx * GA * GA == varmf(DA, DV, 0, GA, i)",
        "bridge_vy": "Syy - 2 * GB * Sy + ny * GB * GB == varmf(DA, DV, 1, GB, i)",
    }
    COV = "covmf(DA, DV, GA, GB, N) / N"
    VX = "varmf(DA, DV, 0, GA, N) / N"
    VY = "varmf(DA, DV, 1, GB, N) / N"
    R = f"{COV} * pow({VX}, -0.5) * pow({VY}, -0.5)"
    contract(f"{P}::{name}",
        params=params, result="real",
        requires=requires,
        ensures={
            "no_valid_pair": "implies(pc(DV, N) == 0, result == 0.0)",
            "no_variance": f"implies(pc(DV, N) > 0 and ({VX} < 1e-8 or {VY} < 1e-8), result == 0.0)",
            "pearson_mean_filled": f"implies(pc(DV, N) > 0 and not ({VX} < 1e-8 or {VY} < 1e-8), result == ite({R} > 1.0, 1.0, ite({R} < -1.0, -1.0, {R})))",
            "range": "-1 <= result and result <= 1",
        },
        entry_hints=[("let", "DA", A), ("let", "DV", V), ("let", "GA", "s1(DA, DV, 0, N1 - 1) / c1(DV, 0, N1 - 1)"),
                     ("let", "GB", "s1(DA, DV, 1, N1 - 1) / c1(DV, 1, N1 - 1)")],
        loops={0: {"var": "i", "invariant": inv, "by": {
            "pres/Sx": LOC0("inv:Sx"), "pres/Sy": LOC0("inv:Sy"), "pres/pairs": LOC0("inv:pairs", "inv:Sx", "inv:Sy"),
            "pres/bridge_cov": {"backend": "ratfun", "rules": ["inv:bridge_cov", "have:unfold_cov"]},
            "pres/bridge_vx": {"backend": "ratfun", "rules": ["inv:bridge_vx", "have:unfold_vx"]},
            "pres/bridge_vy": {"backend": "ratfun", "rules": ["inv:bridge_vy", "have:unfold_vy"]}},
            "head_hints": [
                ("have", "unfold_vx", "varmf(DA, DV, 0, GA, i + 1) == varmf(DA, DV, 0, GA, i) + (ite(DV[i], DA[i], GA) - GA) * (ite(DV[i], DA[i], GA) - GA)", UNF),
                ("have", "unfold_vy", "varmf(DA, DV, 1, GB, i + 1) == varmf(DA, DV, 1, GB, i) + (ite(DV[i + 1], DA[i + 1], GB) - GB) * (ite(DV[i + 1], DA[i + 1], GB) - GB)", UNF),
                ("have", "unfold_cov", "covmf(DA, DV, GA, GB, i + 1) == covmf(DA, DV, GA, GB, i) + (ite(DV[i], DA[i], GA) - GA) * (ite(DV[i + 1], DA[i + 1], GB) - GB)", UNF),
            ]}},
        exit_hints=[],
        anchors={
            "after: mean_Y =": [
                ("have", "mean_x_is_spec", "mean_X == GA", {"only": ["inv:Sx", "let", "range", "inv:range"]}),
                ("have", "mean_y_is_spec", "mean_Y == GB", {"only": ["inv:Sy", "let", "range", "inv:range"]}),
            ],
            "after: var_Y =": [
                ("have", "cov_is_spec", f"A == {COV}", {"only": ["have:mean_", "inv:bridge_cov", "inv:pairs", "range", "inv:range"], "nlabs": False}),
                ("have", "varx_is_spec", f"var_X == {VX}", {"only": ["have:mean_x", "inv:bridge_vx", "inv:Sx", "inv:pairs", "path", "range", "inv:range"], "nlabs": False, "prefer": "noax"}),
                ("have", "vary_is_spec", f"var_Y == {VY}", {"only": ["have:mean_y", "inv:bridge_vy", "inv:Sy", "inv:pairs", "path", "range", "inv:range"], "nlabs": False, "prefer": "noax"}),
            ],
        },
        options={"nloops": 1, "by_id": [
            (r"/post/(no_variance|pearson_mean_filled|no_valid_pair)", {"only": ["have", "path", "inv:pairs", "range", "inv:range"]}),
        ]},
        props=("C15", "C14"), note="model R; isnan is an uninterpreted 'missing' predicate; pow(v, -0.5) uninterpreted (same operation in code and spec)")


make("autocorr_1d_int", "data[k] != nodata", {"data": "i2[N1]", "nodata": "int"}, {"length": "N1 >= 3"})
make("autocorr_1d_float", "not isnan(real(data[k]))", {"data": "real[N1]"}, {"length": "N1 >= 3"})

"""C18 -- hdc/algo/ops/lroo.py::lroo: longest run of ones (>= 2 members), without wrapping."""
from hdcv.spec import contract, specfn

# Spec written from the property statement, on the *data* (not on the code's `dots` array):
specfn("runlen", "a:int[], t:int", "int",
       [("t < 0", "0"), (None, "ite(a[t] == 1, runlen(a, t - 1) + 1, 0)")],
       doc="length of the run of ones ending at position t (0 if a[t] != 1)")
specfn("best", "a:int[], t:int", "int",
       [("t < 0", "0"), (None, "ite(runlen(a, t) > best(a, t - 1), runlen(a, t), best(a, t - 1))")],
       doc="longest run of ones within a[0..t]")

GAP = "ghost:contracts/ghost_lroo.py::gap_lemma"

contract(GAP,
    params={"data": "int[N]", "a": "int", "b": "int"},
    requires={"order": "-1 <= a and a < b and b <= N", "nonneg": "best(data, a) >= 0",
              "gap": "forall(s, a + 1, b, data[s] != 1)"},
    ensures={"best_flat": "best(data, b - 1) == best(data, a)",
             "run_zero": "implies(b - 1 > a, runlen(data, b - 1) == 0)",
             },
    loops={0: {"var": "s", "invariant": {
        "range": "a + 1 <= s",
        "flat": "best(data, s - 1) == best(data, a) and best(data, a) >= 0",
        "zero": "implies(s - 1 > a, runlen(data, s - 1) == 0)",
    }}},
    options={"frame_obligations": False},
    props=("C18",), note="ghost lemma: induction over a gap without ones")


contract("hdc/algo/ops/lroo.py::lroo",
    params={"data": "u1[N]", "out": "i4[1]"},
    modifies=["out"], track_written=["out"],
    requires={"axis_fits_int32": "N <= 2147483647"},
    ensures={
        # the property, as an integer: longest run if it has >= 2 members, else 0 -- *without wrapping*
        "longest_run": "out[0] == ite(best(data, N - 1) >= 2, best(data, N - 1), 0)",
    },
    loops={0: {"var": "ix", "invariant": {
        "range": "1 <= ix and (dots.size == 0 or ix <= dots.size)",
        "cr": "implies(dots.size > 0, cr == runlen(data, dots[ix - 1]))",
        "cr0": "implies(dots.size == 0, cr == 1)",
        "mr": "implies(dots.size > 0, mr == ite(best(data, dots[ix - 1]) >= 2, best(data, dots[ix - 1]), 0))",
        "mr0": "implies(dots.size == 0, mr == 0)",
        "bounded": "cr <= ix and mr <= ix and dots.size <= N",
        "sane": "cr >= 1 and implies(dots.size > 0, best(data, dots[ix - 1]) >= 0)",
    },
        "entry_hints": [
            # first dot: nothing before it is a one
            ("call", GAP, {"data": "data", "a": "-1", "b": "ite(dots.size > 0, dots[0], N)", "N": "N"}),
        ],
        "hints": [
            ("call", GAP, {"data": "data", "a": "dots[ix - 1]", "b": "dots[ix]", "N": "N"}),
        ],
        "exit_hints": [
            ("call", GAP, {"data": "data", "a": "ite(dots.size > 0, dots[dots.size - 1], -1)", "b": "N", "N": "N"}),
        ],
    }},
    options={"cast_obligations": True, "nloops": 1},
    props=("C18", "C14"),
    note="uint8 store is a cast obligation: the value stored must be the mathematical run length")

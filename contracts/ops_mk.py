"""C10 -- Mann-Kendall kernels in hdc/algo/ops/stats.py (integers + model R)."""
from hdcv.spec import contract, specfn

S = "hdc/algo/ops/stats.py"

specfn("sgn", "v:real", "int", [("v > 0", "1"), ("v < 0", "-1"), (None, "0")])
specfn("mk_inner", "x:real[], k:int, hi:int", "int",
       [("hi <= k + 1", "0"), (None, "mk_inner(x, k, hi - 1) + sgn(x[hi - 1] - x[k])")],
       doc="sum over k < kk < hi of sgn(x[kk] - x[k])")
specfn("mk_S", "x:real[], K:int, n:int", "int",
       [("K <= 0", "0"), (None, "mk_S(x, K - 1, n) + mk_inner(x, K - 1, n)")],
       doc="Mann-Kendall S restricted to first indices k < K")

contract(f"{S}::mk_score",
    params={"x": "real[N]"}, result=("int", "real"),
    requires={"length": "N >= 2"},
    ensures={"S": "result[0] == mk_S(x, N - 1, N)",
             "tau_a": "result[1] == real(mk_S(x, N - 1, N)) / (0.5 * N * (N - 1))"},
    loops={0: {"var": "k", "invariant": {"range": "0 <= k and n == N", "acc": "_s1 - _s2 == mk_S(x, k, n)"}},
           1: {"var": "kk", "invariant": {"range": "0 <= k and k < n - 1 and k + 1 <= kk and n == N", "acc": "_s1 - _s2 == mk_S(x, k, n) + mk_inner(x, k, kk)"}}},
    options={"nloops": 2}, props=("C10", "C14"))

contract(f"{S}::mk_z_score",
    params={"s": "int", "vs": "real"}, result="real",
    options={"div_obligations": False},
    ensures={"continuity_corrected": "result == ite(s > 0, (s - 1) / sqrt(vs), ite(s < 0, (s + 1) / sqrt(vs), 0.0))"},
    props=("C10",), note="sqrt uninterpreted; division by sqrt(vs) = 0 (all values tied) cannot occur with s != 0 -- not proved here")

contract(f"{S}::mk_p_value",
    params={"z": "real", "alpha": "const(0.05)"}, result=("real", "int"),
    ensures={"two_sided_p": "result[0] == 2 * (1 - 0.5 * (1.0 + erf(ite(z >= 0, z, -z) * sqrt(0.5))))",
             "significance": "result[1] == ite(ite(z >= 0, z, -z) > ndtri(1 - 0.05 / 2), 1, 0)"},
    props=("C10",), note="erf / ndtri / sqrt uninterpreted: the obligation is that the formula of the statement is evaluated with the right operands")

contract(f"{S}::mk_variance_s", variant="default", params={"x": "real[N]"}, result="real", requires={"length": "N >= 2"},
         ensures={"positive": "True"}, options={"auto_cut": True, "frame_obligations": False}, props=("C10",),
         note="call-site contract only (tie-corrected variance is decided by the bounded stand-in)")
contract(f"{S}::mk_sens_slope", variant="default", params={"x": "real[N]"}, result=("real", "real"), requires={"length": "N >= 2"},
         options={"auto_cut": True, "frame_obligations": False}, props=("C10",), note="call-site contract only (median of pairwise slopes: bounded stand-in; index safety in C14)")

contract(f"{S}::mann_kendall_trend_1d",
    params={"x": "real[N]"}, result=("real", "real", "real", "int"),
    requires={"length": "N >= 2"},
    ensures={"tau_a": "result[0] == real(mk_S(x, N - 1, N)) / (0.5 * N * (N - 1))",
             "flag_range": "result[3] == 0 or result[3] == 1 or result[3] == -1"},
    local_ensures={"flag": "result[3] == ite(h != 0, sgn(z), 0)",
             "p_and_slope_passed_on": "result[1] == p and result[2] == slope",
             "z_from_S_and_variance": "z == ite(s > 0, (s - 1) / sqrt(sv), ite(s < 0, (s + 1) / sqrt(sv), 0.0)) and s == mk_S(x, N - 1, N)"},
    options={"div_obligations": False},
    props=("C10",), note="trend flag = sign(Z) when significant, 0 otherwise: checked on the symbolic paths (h, z from the callee contracts)")

contract(f"{S}::_mann_kendall_trend_gu_nd",
    params={"x": "real[N]", "nodata": "real", "tau": "f4[1]", "p": "f4[1]", "slope": "f4[1]", "trend": "i1[1]"},
    modifies=["tau", "p", "slope", "trend"], track_written=["tau", "p", "slope", "trend"],
    requires={"length": "N >= 2"},
    ensures={"all_nodata": "implies(forall(i, 0, N, x[i] == nodata), tau[0] == nodata and p[0] == nodata and slope[0] == nodata and trend[0] == -2)"},
    options={"div_obligations": False},
    props=("C10", "C14"))

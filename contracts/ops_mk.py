"""C10 -- Mann-Kendall kernels in hdc/algo/ops/stats.py (integers + model R)."""
from hdcv.spec import contract, specfn

S = "hdc/algo/ops/stats.py"

specfn("sgn", "v:real", "int", [("v > 0", "1"), ("v < 0", "-1"), (None, "0")])
specfn("mk_inner", "x:real[], k:int, hi:int", "int",
       [("hi <= k + 1", "0"), (None, "mk_inner(x, k, hi - 1) + sgn(x[hi - 1] - x[k])")],
       doc="sum over k < kk < hi of sgn(x[kk] - x[k])")
specfn("mk_S", "x:real[], K:int, n:int", "int",
       [("K <= 0", "0"), (None, "mk_S(x, K - 1, n) + mk_inner(x, K - 1, n)")],
       doc="Mann-Kendall S restricted to first indices k < K")

contract(f"{S}::mk_score",
    params={"x": "real[N]"}, result=("int", "real"),
    requires={"length": "N >= 2"},
    ensures={"S": "result[0] == mk_S(x, N - 1, N)",
             "tau_a": "result[1] == real(mk_S(x, N - 1, N)) / (0.5 * N * (N - 1))"},
    loops={0: {"var": "k", "invariant": {"range": "0 <= k and n == N", "acc": "_s1 - _s2 == mk_S(x, k, n)"}},
           1: {"var": "kk", "invariant": {"range": "0 <= k and k < n - 1 and k + 1 <= kk and n == N", "acc": "_s1 - _s2 == mk_S(x, k, n) + mk_inner(x, k, kk)"}}},
    options={"nloops": 2}, props=("C10", "C14"))

contract(f"{S}::mk_z_score",
    params={"s": "int", "vs": "real"}, result="real",
    options={"div_obligations": False},
    ensures={"continuity_corrected": "result == ite(s > 0, (s - 1) / sqrt(vs), ite(s < 0, (s + 1) / sqrt(vs), 0.0))"},
    props=("C10",), note="sqrt uninterpreted; division by sqrt(vs) = 0 (all values tied) cannot occur with s != 0 -- not proved here")

contract(f"{S}::mk_p_value",
    params={"z": "real", "alpha": "const(0.05)"}, result=("real", "int"),
    ensures={"two_sided_p": "result[0] == 2 * (1 - 0.5 * (1.0 + erf(ite(z >= 0, z, -z) * sqrt(0.5))))",
             "significance": "result[1] == ite(ite(z >= 0, z, -z) > ndtri(1 - 0.05 / 2), 1, 0)"},
    props=("C10",), note="erf / ndtri / sqrt uninterpreted: the obligation is that the formula of the statement is evaluated with the right operands")

# tie-corrected variance: (n(n-1)(2n+5) - sum over the distinct values of t(t-1)(2t+5)) / 18, t = multiplicity of the value
specfn("tiesum", "xu:real[], x:real[], n:int, i:int", "int",
       [("i <= 0", "0"), (None, "tiesum(xu, x, n, i - 1) + cnteq(x, xu[i - 1], n) * (cnteq(x, xu[i - 1], n) - 1) * (2 * cnteq(x, xu[i - 1], n) + 5)")],
       doc="sum over the first i distinct values of t (t - 1) (2 t + 5)")
TZ = "ghost:contracts/ghost_stats.py::tiesum_zero"
contract(TZ, params={"xu": "real[U]", "x": "real[N]", "n": "int", "m": "int"},
    requires={"len": "0 <= m and m <= U and n == N", "untied": "forall(i, 0, m, cnteq(x, xu[i], n) == 1)"},
    ensures={"vanishes": "tiesum(xu, x, n, m) == 0"},
    loops={0: {"var": "s", "invariant": {"range": "0 <= s", "eq": "tiesum(xu, x, n, s) == 0"}}},
    options={"frame_obligations": False}, props=("C10",))

contract(f"{S}::mk_variance_s", variant="default", params={"x": "real[N]"}, result="real", requires={"length": "N >= 2"},
    local_ensures={"tie_corrected_variance": "result == real(N * (N - 1) * (2 * N + 5) - tiesum(xu, x, N, xu.size)) / 18"},
    loops={0: {"var": "i", "invariant": {"range": "0 <= i and n == N", "acc": "tp == tiesum(xu, x, n, i)"}},
           1: {"var": "ii", "invariant": {"range": "0 <= ii and 0 <= i and i < xu.size and n == N", "cnt": "_tp == cnteq(x, xu[i], ii)"}}},
    exit_hints=[("call", TZ, {"xu": "xu", "x": "x", "n": "N", "m": "ite(xu.size == N, xu.size, 0)", "U": "xu.size", "N": "N"})],
    options={"nloops": 2, "frame_obligations": False, "unique_counts": True}, props=("C10", "C14"),
    note="xu = np.unique(x) (library contract: distinct values; when len(xu) == N every value occurs once); the clause is stated over the local xu")

# Sen's slope: every pairwise slope (x[j] - x[i]) / (j - i), i < j, sits in its own cell of d (row-major pair order) and the slope is the
# (nan)median of exactly these cells; the intercept is median(x) - (n - 1)/2 * slope.  np.nanmedian is an uninterpreted order statistic.
specfn("pairs_before", "i:int, n:int", "int", [("i <= 0", "0"), (None, "pairs_before(i - 1, n) + (n - i)")],
       doc="number of pairs (a, b), a < b < n, with a < i")
PBM = "ghost:contracts/ghost_stats.py::pb_mono"
contract(PBM, params={"n": "int", "i": "int"},
    requires={"range": "0 <= i and i <= n"},
    ensures={"rows_disjoint": "forall(a, 0, i, pairs_before(a, n) + (n - a - 1) <= pairs_before(i, n)) and pairs_before(i, n) >= 0"},
    loops={0: {"var": "s", "invariant": {"range": "0 <= s", "mono": "forall(a, 0, s, pairs_before(a, n) + (n - a - 1) <= pairs_before(s, n)) and pairs_before(s, n) >= 0"}}},
    options={"frame_obligations": False}, props=("C10",))
PBC = "ghost:contracts/ghost_stats.py::pb_closed"
contract(PBC, params={"n": "int", "i": "int"},
    requires={"range": "0 <= i and i <= n"},
    ensures={"closed_form": "2 * pairs_before(i, n) == i * (2 * n - i - 1)"},
    loops={0: {"var": "s", "invariant": {"range": "0 <= s", "eq": "2 * pairs_before(s, n) == s * (2 * n - s - 1)"}}},
    options={"frame_obligations": False}, props=("C10",))
contract(f"{S}::mk_sens_slope", variant="default", params={"x": "real[N]"}, result=("real", "real"), requires={"length": "N >= 2"},
    local_ensures={
        "all_pairwise_slopes": "forall((a, b), implies(0 <= a and a < b and b < N, d[pairs_before(a, N) + b - a - 1] == (x[b] - x[a]) / (b - a)))",
        "cells_used": "ix == pairs_before(N - 1, N)",
        "no_other_cells": "d.size == pairs_before(N - 1, N)",
        "slope_is_median_of_slopes": "result[0] == nanmedian(d)",
        "intercept": "result[1] == nanmedian(x) - (real(N) - 1) / 2 * result[0]",
    },
    loops={0: {"var": "i", "invariant": {"range": "0 <= i and n == N and ix == pairs_before(i, n) and ix >= 0",
                                         "done": "forall((a, b), implies(0 <= a and a < i and a < b and b < N, d[pairs_before(a, N) + b - a - 1] == (x[b] - x[a]) / (b - a)))"}},
           1: {"var": "j", "invariant": {"range": "0 <= i and i < n - 1 and i + 1 <= j and n == N and ix == pairs_before(i, n) + j - i - 1 and pairs_before(i, n) >= 0",
                                         "done": "forall((a, b), implies(0 <= a and a < i and a < b and b < N, d[pairs_before(a, N) + b - a - 1] == (x[b] - x[a]) / (b - a)))",
                                         "row": "forall(b, i + 1, j, d[pairs_before(i, N) + b - i - 1] == (x[b] - x[i]) / (b - i))"},
               "head_hints": [("call", PBM, {"n": "N", "i": "i"})]}},
    exit_hints=[("call", PBC, {"n": "N", "i": "N - 1"})],
    options={"nloops": 2, "frame_obligations": False, "div_obligations": False, "index_obligations": False}, props=("C10",),
    note="index safety of d[ix] (ix < n(n-1)/2) is C14's obligation; here the cells are identified through the linear recursion pairs_before")

contract(f"{S}::mann_kendall_trend_1d",
    params={"x": "real[N]"}, result=("real", "real", "real", "int"),
    requires={"length": "N >= 2"},
    ensures={"tau_a": "result[0] == real(mk_S(x, N - 1, N)) / (0.5 * N * (N - 1))",
             "flag_range": "result[3] == 0 or result[3] == 1 or result[3] == -1"},
    local_ensures={"flag": "result[3] == ite(h != 0, sgn(z), 0)",
             "p_and_slope_passed_on": "result[1] == p and result[2] == slope",
             "z_from_S_and_variance": "z == ite(s > 0, (s - 1) / sqrt(sv), ite(s < 0, (s + 1) / sqrt(sv), 0.0)) and s == mk_S(x, N - 1, N)"},
    options={"div_obligations": False},
    props=("C10",), note="trend flag = sign(Z) when significant, 0 otherwise: checked on the symbolic paths (h, z from the callee contracts)")

contract(f"{S}::_mann_kendall_trend_gu_nd",
    params={"x": "real[N]", "nodata": "real", "tau": "f4[1]", "p": "f4[1]", "slope": "f4[1]", "trend": "i1[1]"},
    modifies=["tau", "p", "slope", "trend"], track_written=["tau", "p", "slope", "trend"],
    requires={"length": "N >= 2"},
    ensures={"all_nodata": "implies(forall(i, 0, N, x[i] == nodata), tau[0] == nodata and p[0] == nodata and slope[0] == nodata and trend[0] == -2)"},
    options={"div_obligations": False},
    props=("C10", "C14"))

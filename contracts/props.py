"""Property table: which contracts / lemmas / stand-ins decide which property."""

PROPS = {}

PROPS["C18"] = {
    "modules": ["contracts.ops_lroo"],
    "contracts": ["ghost:contracts/ghost_lroo.py::gap_lemma", "hdc/algo/ops/lroo.py::lroo"],
    "standin": True,
    "level": "proof",
    "trusted": ["z3 5.1 / cvc5 1.0.3", "numpy.where(mask)[0]: strictly increasing enumeration of exactly the true positions (assumed contract)",
                "xarray sortby/where/cumsum/argmax/isel used by croo: not under contract (croo decided by the bounded stand-in only)"],
    "not_proved": ["croo (xarray-level composition): bounded stand-in only -- exhaustive binary series x all storage permutations up to length 5 (quick) / 6 (thorough)"],
    "assumptions": ["integers are mathematical; the narrowing store into the output dtype is a separate cast obligation"],
    "level_text": "lroo: every obligation generated from the real AST (loop invariant over the run-length spec functions written from the property, ghost induction lemma, index obligations, narrowing-store obligation for the output dtype) is discharged by z3 for all series lengths; croo is an xarray composition outside the verifier's subset and is decided by an exhaustive bounded stand-in only (labelled bounded)",
    "level_note": "trusted: z3/cvc5; assumed contract of numpy.where/flatten; Numba compiles the source faithfully (C13); integers mathematical except the stated cast obligation; croo not proved",
    "explanation": "lroo: loop invariant over runlen/best spec functions written from the property, ghost gap lemma by induction, cast obligation for the output dtype; croo bounded",
}

ALL = ["C%02d" % i for i in range(1, 21)]
NOT_APPLICABLE = {
    "C13": "statement about Numba's type inference/lowering and the ctypes binding of SciPy kernels (the translator), not about functions of /repo: no contract on hdc-algo source can establish or refute it; it is the stated assumption of every proof here",
}
for _p in ALL:
    if _p not in PROPS and _p not in NOT_APPLICABLE:
        NOT_APPLICABLE[_p] = "not yet claimed: contracts for this property are still being built (see DESIGN.md build order)"

"""Property table: which contracts / lemmas / stand-ins decide which property."""

PROPS = {}

PROPS["C18"] = {
    "modules": ["contracts.ops_lroo"],
    "contracts": ["ghost:contracts/ghost_lroo.py::gap_lemma", "hdc/algo/ops/lroo.py::lroo"],
    "standin": True,
    "level": "proof",
    "trusted": ["z3 5.1 / cvc5 1.0.3", "numpy.where(mask)[0]: strictly increasing enumeration of exactly the true positions (assumed contract)",
                "xarray sortby/where/cumsum/argmax/isel used by croo: not under contract (croo decided by the bounded stand-in only)"],
    "not_proved": ["croo (xarray-level composition): bounded stand-in only -- exhaustive binary series x all storage permutations up to length 5 (quick) / 6 (thorough)"],
    "assumptions": ["integers are mathematical; the narrowing store into the output dtype is a separate cast obligation"],
    "level_text": "lroo: every obligation generated from the real AST (loop invariant over the run-length spec functions written from the property, ghost induction lemma, index obligations, narrowing-store obligation for the output dtype) is discharged by z3 for all series lengths; croo is an xarray composition outside the verifier's subset and is decided by an exhaustive bounded stand-in only (labelled bounded)",
    "level_note": "trusted: z3/cvc5; assumed contract of numpy.where/flatten; Numba compiles the source faithfully (C13); integers mathematical except the stated cast obligation; croo not proved",
    "explanation": "lroo: loop invariant over runlen/best spec functions written from the property, ghost gap lemma by induction, cast obligation for the output dtype; croo bounded",
}

PROPS["C17"] = {
    "modules": ["contracts.ops_stats"],
    "contracts": ["ghost:contracts/ghost_stats.py::group_gap", "hdc/algo/ops/stats.py::rolling_sum", "hdc/algo/ops/stats.py::mean_grp"],
    "standin": True,
    "level": "proof",
    "trusted": ["z3 5.1 / cvc5 1.0.3", "boolean-mask read = compress / write = scatter along the strictly increasing enumeration of the true positions (assumed numpy contract)",
                "xarray.apply_ufunc / result trimming in the accessor: bounded stand-in only"],
    "not_proved": ["accessor-level trimming and nodata resolution: bounded stand-in", "independence from the sentinel value: follows from the proved functional postconditions; additionally checked by the stand-in on sentinel pairs",
                   "float32 accumulation exactness (model R treats floats as reals)"],
    "assumptions": ["floats are exact reals (model R); window_size is integral"],
    "level_text": "rolling_sum and mean_grp: the property's trichotomy / grouped-mean postconditions are stated over spec functions written from the statement and every VC from the real AST (two nested loops each, compress/scatter, ghost gap lemma) is discharged for all lengths, windows, labelings and nodata placements; accessor plumbing and dtype matrix are covered by an exhaustive small-domain stand-in (bounded)",
    "level_note": "trusted: z3/cvc5, assumed numpy mask contracts, floats-as-reals (model R), Numba faithful (C13)",
    "explanation": "nested-loop invariants over vsum/vsumv/cntv/gsum/gcnt spec functions; ghost lemma for foreign-group gaps",
}

PROPS["C16"] = {
    "modules": ["contracts.ops_zonal"],
    "contracts": ["hdc/algo/ops/zonal.py::do_mean", "hdc/algo/ops/zonal.py::do_mean@f64"],
    "standin": True,
    "level": "proof",
    "trusted": ["z3 5.1 / cvc5 1.0.3", "numpy.zeros / ndarray.astype element-wise (assumed)",
                "a-priori error bound of float64 accumulation, (N-1)*2^-53*sum|x|, is below one ulp of the requested output dtype for zones up to 2^28 pixels (stated error-analysis lemma, not proved)",
                "invariance of a finite sum under rearrangement of its index set (mathematical lemma, the postcondition is a sum over an index set in row-major order)",
                "accessor plumbing (NaN->nodata, coords, dask map_blocks): bounded stand-in only"],
    "not_proved": ["float64 rounding of the running sum (assumption above)", "accessor / dask paths (bounded)"],
    "assumptions": ["floats are exact reals (model R) except for the accumulator obligations: a counter kept in dtype T is exact only below 2^24 (float32) / 2^53 (float64); a running sum must be kept in float64"],
    "level_text": "do_mean: for all rasters, zone maps and time steps the returned mean/count equal the row-major sum/count spec functions written from the statement (NaN and 0 for empty zones, nothing from zone-nodata pixels), every subscript is in bounds, and the accumulator-width obligations (counter exactness, float64 running sum) are discharged; 69 obligations per output dtype by z3 over a four-loop nest",
    "level_note": "trusted: z3/cvc5; floats-as-reals (model R) with explicit accumulator obligations; float64 summation error bound assumed; accessor/dask only bounded; Numba faithful (C13)",
    "explanation": "4 nested loop invariants over row/zone sum+count spec functions; accumulator typing obligations",
}

PROPS["C01"] = {
    "modules": ["contracts.ops_ws2d"],
    "contracts": ["hdc/algo/ops/ws2d.py::ws2d"],
    "lemmas": [],
    "standin": True,
    "level": "proof",
    "trusted": ["z3 5.1 / cvc5 1.0.3 / sympy 1.14 (ratfun)", "numpy.zeros / ndarray.copy (assumed)",
                "ratfun cancels denominators symbolically; every denominator is a pivot d[k] or a ghost let whose positivity is a separate discharged obligation (FP, pivot_ge_lmda, dm1_pos, dm_pos)",
                "uniqueness of the minimiser: (W + lmda D'D) is s.p.d. under the precondition (>= 2 positive weights), a standard fact that is not re-proved; the discharged positivity of all pivots of its LDL' factorisation is the algorithmic witness"],
    "not_proved": ["float64 clause (relative error <= 1e-6): IEEE rounding is outside model R; bounded stand-in against the exact rational run of the real source"],
    "assumptions": ["floats are exact reals (model R) -- this is literally the statement's 'executed in exact rational arithmetic' clause"],
    "level_text": "ws2d: for all n >= 4, all y, all non-negative w with >= 2 positive entries and all lmda > 0 the returned vector satisfies every row of (W + lmda D'D) z = W y, no pivot is zero (ghost Schur-margin invariant with closed nlsat lemmas), all subscripts are in bounds; ~210 obligations from the real AST: z3, z3 with non-linear terms abstracted to uninterpreted functions, and the ratfun back end for the five row identities",
    "level_note": "trusted: z3/cvc5/sympy; model R (exact reals) for the identity clause; float64 clause only bounded; Numba faithful (C13)",
    "explanation": "forward/backward loop invariants in definitional form; ghost freeze of d,c,e,zf; row identities by oriented substitution + rational normal form",
}

PROPS["C15"] = {
    "modules": ["contracts.ops_autocorr"],
    "contracts": ["hdc/algo/ops/autocorr.py::autocorr_1d_int", "hdc/algo/ops/autocorr.py::autocorr_1d_float"],
    "standin": True,
    "level": "proof",
    "trusted": ["z3 5.1 / cvc5 1.0.3", "pow(v, -0.5) uninterpreted (the same operation in code and spec)", "isnan as an uninterpreted 'missing' predicate in model R",
                "int64 accumulators do not overflow for int16 data of length <= 10^7 (machine integers treated as mathematical)",
                "drivers autocorr / autocorr_tyx / autocorr_1d dispatch and the accessor: bounded stand-in (layouts, encodings, dask)"],
    "not_proved": ["equality of the int/nodata and float/NaN encodings and of the two layouts: bounded stand-in (both kernels are proved against the same spec)",
                   "affine invariance: follows from the spec (Pearson), checked by the stand-in", "float64 rounding"],
    "assumptions": ["floats are exact reals (model R)"],
    "level_text": "autocorr_1d_int / autocorr_1d_float: the single-pass sums are proved equal to their spec sums (loop invariant), the closed form is proved equal to the statement's mean-filled covariance/variance sums (bridge invariants with ghost means), the result is 0 without a valid pair or variance and always lies in [-1, 1]; for all lengths >= 3 and all gap patterns",
    "level_note": "trusted: z3/cvc5; model R; pow/isnan uninterpreted; drivers, encodings/layout equivalence and accessor only bounded; Numba faithful (C13)",
    "explanation": "loop invariant over 12 accumulators + three bridge identities carried through the loop with ghost means",
}

PROPS["C20"] = {
    "modules": ["contracts.ops_tinterpolate"],
    "contracts": ["ghost:contracts/ghost_tint.py::cntpos_mono", "ghost:contracts/ghost_tint.py::rid_mono", "ghost:contracts/ghost_tint.py::future_run_empty",
                  "hdc/algo/ops/tinterpolate.py::tinterpolate"],
    "standin": True,
    "level": "proof",
    "trusted": ["z3 5.1 / cvc5 1.0.3", "ws2d is used through its contract only (C01 discharges it)", "ndarray.copy, python round() = half-to-even (assumed)",
                "accessor whitint (apply_ufunc, output length, dtype check): bounded stand-in"],
    "not_proved": ["'constant series -> constant' and 'linear series -> exact period means' need uniqueness of the ws2d solution (s.p.d. system), which is a mathematical fact not re-proved here: bounded stand-in with an exact rational oracle",
                   "float64 conditioning of the lmda = 1e-5 system: bounded"],
    "assumptions": ["floats are exact reals (model R)", "int16 range of the rounded means is the statement's domain restriction"],
    "level_text": "tinterpolate: for all templates (0/1 marks, as many marks as observations, length >= 4), labelings in contiguous runs and observation series: the observations are scattered to the marks, the solver is called within its contract, the returned values are the half-even rounded means of that daily curve over each label run, every output element is written, every subscript is in bounds and no input array is stored to; two loop invariants + three ghost induction lemmas, all discharged by z3",
    "level_note": "trusted: z3/cvc5; model R; ws2d via contract; uniqueness-based clauses and accessor only bounded; Numba faithful (C13)",
    "explanation": "scatter invariant over cntpos, run-length invariant over rid/rsum/rcnt, written bitmap, frame obligations",
}

PROPS["C03"] = {
    "modules": ["contracts.ops_smoothers"],
    "contracts": ["ghost:contracts/ghost_smooth.py::sum01_is_count", "ghost:contracts/ghost_smooth.py::cntpos_same",
                  "hdc/algo/ops/ws2dgu.py::ws2dgu", "hdc/algo/ops/ws2dpgu.py::ws2dpgu"],
    "standin": True,
    "level": "proof",
    "trusted": ["z3 5.1 / cvc5 1.0.3", "ws2d through its contract only (C01)", "numpy: array comprehension, element-wise arithmetic, boolean-mask store, np.sum, np.round(half-even, out=) (assumed contracts)",
                "xarray.apply_ufunc / lmda = 10**sg in the accessor: bounded stand-in"],
    "not_proved": ["ws2dpgu: the postcondition pins the *last* reweighting step (weights p / 1-p relative to the previous iterate, final curve = solution for these weights, rounding); that the iterate is the one reached after at most 10 passes from the zero curve is checked by the bounded stand-in against an exact rational IRLS",
                   "float64 vs exact arithmetic (ties excluded as the statement allows)"],
    "assumptions": ["floats are exact reals (model R)", "input cells hold integers (int16 data cast to float64)", "fitted curve inside int16 (statement's domain restriction)"],
    "level_text": "ws2dgu / ws2dpgu: for all series (length >= 4), gap patterns, lambda >= 0 and p in (0,1): with >= 2 valid cells the output is the half-even rounding of a curve that satisfies the weighted normal equations (unit weights on valid cells; p / 1-p envelope weights of the last pass for the asymmetric kernel), otherwise (or lambda = 0) the input is returned; solver preconditions (two positive weights) are discharged via ghost counting lemmas; every output cell written",
    "level_note": "trusted: z3/cvc5; model R; ws2d by contract; IRLS convergence history and accessor only bounded; Numba faithful (C13)",
    "explanation": "modular use of ws2d's contract; ghost lemmas sum01_is_count / cntpos_same; IRLS loop cut at an invariant",
}

def _c14_contracts():
    import contracts.c14 as c14
    return c14.DEFAULTS + c14.CHECKED


PROPS["C14"] = {
    "modules": ["contracts.c14"],
    "contracts_fn": _c14_contracts,
    "standin": True,
    "level": "proof",
    "trusted": ["z3 5.1 / cvc5 1.0.3", "numpy shape semantics of zeros/ones/full/copy/arange(literal grids)/element-wise ops/boolean masks/where/unique (assumed contracts)",
                "Numba's negative-index wrap-around for basic indexing (ws2d with n = 2, 3 reads m-3 = -2/-1)",
                "call-site contract ws2d[idx] (N >= 2) is the union of three discharged variants: ws2d (N >= 4, symbolic), ws2d[n2], ws2d[n3]",
                "gufunc layout signatures guarantee the stated shape equalities on entry"],
    "not_proved": ["division/overflow are not part of C14 (see C08/C16/C18)", "compiled code vs source (C13): covered only by the NUMBA_BOUNDSCHECK=1 stand-in"],
    "assumptions": ["index abstraction: float values are irrelevant; integers mathematical"],
    "level_text": "all 35 kernels: every subscript, slice, element-wise shape agreement, callee shape precondition and (for gufunc outputs) written-ness obligation generated from the real AST under the documented preconditions is discharged by z3 for all sizes (ws2d additionally executed concretely for n = 2, 3 where negative indices wrap); loops without data-dependent cursors are cut with the empty invariant, cursor variables (k, ix, jj, kk, ngood) carry explicit invariants",
    "level_note": "trusted: z3/cvc5; assumed numpy shape contracts; Numba negative-index wrap-around; compiled-vs-source only bounded (NUMBA_BOUNDSCHECK=1)",
    "explanation": "index abstraction with auto-cut loops; ~50 contract variants",
}

def _c19_contracts():
    import contracts.iteragg as it
    return it.VARIANTS


PROPS["C19"] = {
    "modules": ["contracts.iteragg"],
    "contracts_fn": _c19_contracts,
    "standin": True,
    "level": "proof",
    "trusted": ["z3 5.1 / cvc5 1.0.3",
                "slicing-mode model of xarray/pandas (hdcv/xmodel.py): obj[dim].size, obj.sizes[dim], Index[i], Index[a:b].size, obj[{dim: slice}], assign_attrs, reduce(keep_attrs=True), expand_dims are opaque payload operations whose only modelled effect is the window / attrs / stamp they carry",
                "pandas Index.get_indexer([x], method) returns one integer in [-1, size), -1 meaning 'not located', and never raises KeyError (assumed contract; the stand-in exercises it with and without lookup methods)",
                "the sum / mean / full wrappers (which reducer is passed) and the NaN-skipping payload values: bounded stand-in"],
    "not_proved": ["payload values (np.nansum / np.nanmean results), the three public wrappers, lookup methods nearest/ffill/bfill: bounded stand-in (exhaustive over axis lengths <= 7 / 12)"],
    "assumptions": ["integers mathematical"],
    "level_text": "_iteragg is executed symbolically from the real AST in slicing mode for all 32 combinations of (time / other dimension, reducer given or not, n given or defaulted, begin given or not, end given or not): for every axis length, n >= 1 and every begin/end position the generator yields exactly the windows [hi-n, hi) for hi = pos(begin)+1 down to max(pos(end)+1, n), newest first, nothing else; each carries agg_start = hi-n, agg_stop = hi-1, agg_n = n and (for time, with a reducer) the stamp of step hi-1; it returns normally only when the dimension exists and both labels were located and raises ValueError otherwise; all subscripts and windows are inside the axis. The payload values and the public wrappers are covered by the exhaustive bounded stand-in",
    "level_note": "trusted: z3/cvc5; opaque xarray payload model; pandas get_indexer contract; wrappers and payload only bounded",
    "explanation": "loop invariant over ghost arrays describing the yielded sequence; 32 contract variants",
}

PROPS["C10"] = {
    "modules": ["contracts.ops_mk"],
    "contracts": ["hdc/algo/ops/stats.py::mk_score", "hdc/algo/ops/stats.py::mk_z_score", "hdc/algo/ops/stats.py::mk_p_value",
                  "ghost:contracts/ghost_stats.py::tiesum_zero", "hdc/algo/ops/stats.py::mk_variance_s",
                  "ghost:contracts/ghost_stats.py::pb_mono", "ghost:contracts/ghost_stats.py::pb_closed", "hdc/algo/ops/stats.py::mk_sens_slope",
                  "hdc/algo/ops/stats.py::mann_kendall_trend_1d", "hdc/algo/ops/stats.py::_mann_kendall_trend_gu_nd"],
    "standin": True,
    "level": "proof",
    "trusted": ["z3 5.1 / cvc5 1.0.3", "erf / ndtri / sqrt uninterpreted",
                "numpy.unique: library contract assumed (distinct values of the input; when it returns as many values as the input has cells each value occurs exactly once)",
                "numpy.nanmedian: uninterpreted order statistic of the array it is given (that it is the median is NumPy's contract)"],
    "not_proved": ["the symmetries (monotone transforms, negation, reversal) and h <=> p < 0.05 are consequences of the proved formulas that are not themselves stated as lemmas: exhaustive bounded stand-in over all rank patterns up to length 6 (7 thorough), as the property's quantifier asks"],
    "assumptions": ["integers mathematical; floats exact reals (model R)"],
    "level_text": "for all series: mk_score: S equals the double sum of signs and tau = S / (n(n-1)/2) (nested loop invariants over spec sums); mk_variance_s: the result is (n(n-1)(2n+5) - sum over the distinct values of t(t-1)(2t+5)) / 18 with t the multiplicity of the value (both the untied shortcut and the general path); mk_sens_slope: every pairwise slope (x[j]-x[i])/(j-i), i<j, is stored in its own cell of d (rows of the pair enumeration do not overlap, lemma pb_mono), all cells are used, the slope is nanmedian(d) and the intercept nanmedian(x) - (n-1)/2 * slope; mk_z_score / mk_p_value: the continuity correction and the two-sided normal p / significance formula of the statement are evaluated with the right operands; mann_kendall_trend_1d: tau, p, slope are passed through and the flag is sign(Z) when significant, else 0; all-nodata pixels yield nodata and flag -2. The symmetries are decided by the exhaustive bounded stand-in",
    "level_note": "trusted: z3/cvc5; special functions, np.unique and np.nanmedian by their library contracts; symmetries only bounded (exhaustive over rank patterns); Numba faithful (C13)",
    "explanation": "nested loop invariants over mk_inner / mk_S / tiesum / pairs_before spec functions; branch-wise postconditions",
}

PROPS["C08"] = {
    "modules": ["contracts.ops_spi"],
    "contracts": ["hdc/algo/ops/stats.py::gammafit", "hdc/algo/ops/stats.py::gammastd", "hdc/algo/ops/stats.py::gammastd_yxt", "hdc/algo/ops/stats.py::gammastd_yxt@defaults"],
    "standin": True,
    "level": "proof",
    "trusted": ["z3 5.1 / cvc5 1.0.3", "log, sqrt, digamma, gammainc, ndtri uninterpreted", "brentq through a call-site contract (returns a float): its float divisions in the secant/extrapolation steps are not proved non-zero",
                "gammastd_grp (boolean masks, vectorised saturation): bounded stand-in for the value clauses; its index safety is discharged in C14"],
    "not_proved": ["monotonicity of SPI in the observation (needs monotonicity of gammainc / ndtri and of IEEE rounding): bounded stand-in over all pairs of valid cells of each pixel",
                   "pixel isolation in the 3-d driver beyond index safety (relational)", "accessor"],
    "assumptions": ["floats are exact reals (model R)", "nodata is an int16 value"],
    "level_text": "gammastd / gammafit / gammastd_yxt: every division is guarded (no ZeroDivisionError: n_valid, n, 12*s, alpha, beta), nodata and negative cells yield nodata, a pixel without valid cells or with more than 90% zeros yields nodata everywhere, valid cells are ndtri(p0 + (1-p0) gammainc(alpha, x/beta)), and every float64 -> int16 store in the 3-d driver is within the int16 range because SPI*1000 is saturated first (cast obligations); ordering/saturation values are additionally checked by the bounded stand-in",
    "level_note": "trusted: z3/cvc5; special functions uninterpreted; brentq divisions and monotonicity only bounded; Numba faithful (C13)",
    "explanation": "count invariants (cz, cv), formula invariant, cast obligations on the int16 stores",
}

PROPS["C07"] = {
    "modules": ["contracts.ops_spi"],
    "contracts": ["hdc/algo/ops/stats.py::gammafit", "hdc/algo/ops/stats.py::gammastd"],
    "standin": True,
    "level": "proof",
    "trusted": ["z3 5.1 / cvc5 1.0.3", "log, sqrt, digamma, gammainc, ndtri uninterpreted (SciPy kernels bound through the vendored extension)",
                "brentq through a call-site contract: that the +-40% bracket around Thom's estimate contains the root, that 100 iterations suffice and the root's accuracy are analytic facts outside any contract here",
                "scaling by 1000 / rounding / int16 store: C08 contracts"],
    "not_proved": ["numerical agreement with the gamma-MLE (root bracket, convergence, SciPy accuracy): bounded stand-in against an independent SciPy evaluation (wide-bracket brentq at 1e-14)",
                   "float32 inputs: loose tolerance only"],
    "assumptions": ["floats are exact reals (model R)"],
    "level_text": "formula structure only: gammafit feeds the MLE equation with count / sum / sum-of-logs of exactly the strictly positive entries of the calibration slice (loop invariant), fails (0,0) when there is none, the statistic is s = log(mean) - mean(log), the root is bracketed by +-40 % around Thom's closed-form estimate (3 - s + sqrt((s-3)^2 + 24 s)) / (12 s) and the scale is mean / shape; gammastd (without overrides) takes its parameters from that fit, computes p0 as zeros / valid (non-nodata, >= 0) cells of the whole pixel, fits on x[cal_start:cal_stop] and evaluates ndtri(p0 + (1-p0) gammainc(alpha, x/beta)) on every valid cell, nodata elsewhere. Numerical agreement with the MLE is decided by the bounded stand-in",
    "level_note": "proof of the formula structure with uninterpreted special functions; numerical clauses only bounded; Numba faithful (C13)",
    "explanation": "count/sum invariants, formula invariant; independent SciPy oracle in the stand-in",
}

PROPS["C09"] = {
    "modules": ["contracts.utils_c09", "contracts.c14"],
    "contracts": ["hdc/algo/utils.py::get_calibration_indices", "hdc/algo/ops/stats.py::gammastd_grp@idx"],
    "standin": True,
    "level": "proof",
    "trusted": ["z3 5.1 / cvc5 1.0.3", "ndarray.searchsorted(left/right) on a sorted array (assumed numpy contract)", "np.datetime64(str) parsing is monotone (assumed)",
                "pandas boolean selection time[groups == ix], to_linspace, window validation and attrs in the accessor: bounded stand-in"],
    "not_proved": ["grouped path of get_calibration_indices (list comprehension over pandas selections), group decomposition of gammastd_grp, label-partition invariance, ValueError for invalid windows, recorded attrs: bounded stand-in"],
    "assumptions": ["time stamps are integers (ns); integers mathematical"],
    "level_text": "get_calibration_indices (ungrouped): for every sorted axis and every begin/end the returned half-open index range contains exactly the steps t with begin <= time[t] <= end (both ends inclusive), for all axis lengths -- discharged from the searchsorted contract; gammastd_grp: index safety / every output cell written (C14 contract). Grouping semantics, label invariance, invalid windows and attrs are decided by the bounded stand-in against per-group ungrouped SPI",
    "level_note": "proof for the ungrouped window only; grouped path and accessor bounded; Numba faithful (C13)",
    "explanation": "searchsorted contract => window characterisation; stand-in for grouping",
}

PROPS["C02"] = {
    "modules": ["contracts.ops_smoothers", "contracts.c14", "contracts.rel_smoothers"],
    "contracts": ["hdc/algo/ops/ws2dgu.py::ws2dgu", "hdc/algo/ops/ws2dpgu.py::ws2dpgu",
                  "hdc/algo/ops/ws2dgu.py::ws2dgu@rel", "hdc/algo/ops/ws2dpgu.py::ws2dpgu@rel",
                  "hdc/algo/ops/ws2dwcv.py::ws2dwcv@rel", "hdc/algo/ops/ws2dwcvp.py::ws2dwcvp@rel",
                  "hdc/algo/ops/ws2d.py::ws2d@rel", "hdc/algo/ops/ws2doptv.py::ws2doptv@rel", "hdc/algo/ops/ws2doptvp.py::ws2doptvp@rel",
                  "hdc/algo/ops/ws2doptvplc.py::ws2doptvplc@rel"],
    "standin": True,
    "level": "other",
    "trusted": ["z3 5.1 / cvc5 1.0.3", "see C03 for the two fixed-lambda functional contracts",
                "relational contracts of the zero-filling kernels (ws2dgu, ws2dpgu, ws2dwcv, ws2dwcvp): the core solver enters as a deterministic function of its in-range inputs (y, lmda, w) (call-site contract ws2d@U); relational contracts of the V-curve kernels: as a function of (w*y, lmda, w) (call-site contract ws2d@Uwy), which is what the relational contract ws2d@rel proves about the solver's real body (lockstep over its two loops)",
                "model U: every float operation, np.sum, np.cos, pow, log, sqrt, rounding and the int16 cast are uninterpreted deterministic functions; IEEE facts used: 0 * finite = 0 (signed zeros identified), 1 * x = x; for the V-curve kernels additionally: finite - nonfinite does not depend on the finite minuend, and (assumption, not an IEEE law) the difference of two finite values does not overflow; int16 cells convert to finite floats",
                "loops: lockstep with an inferred relational invariant (largest set of modified variables that hold the same value in both runs and are preserved); unary loop invariants named in the sidecar (validity weights are 0/1, envelope weights are w * p or w * (1-p), argmin cursor on the grid) are obligations of each run"],
    "not_proved": ["robust GCV branch (robust=True): placeholder independence and zero weight through the re-weighting rounds are decided by the bounded stand-in only (the boolean-mask selection r_arr[w_temp != 0] has a data-dependent length whose lockstep similarity the per-statement lemmas do not reach)",
                   "the clause 'the output at missing cells is the gap-filled value of the fitted curve' is carried by the functional contracts (C03 for the fixed-lambda kernels, C04 / C05 selection contracts: band = rounding of the whole fitted curve) and compared with an exact reference by the stand-in",
                   "V-curve kernels: NaN / infinite cells are not missing-value encodings there (statement), placeholders are required finite"],
    "assumptions": ["model R for the two functional contracts (0 * placeholder = 0 holds in R, so NaN/inf placeholders are visible only to the relational contracts and the stand-in)",
                    "relational contracts quantify over two runs with the same missing mask and the same valid values; placeholders, the nodata value itself and (zero-filling kernels) NaN and +-inf cells are arbitrary and may differ between the runs",
                    "no overflow in y - z at missing cells of the V-curve kernels (extra axiom sub_finite), signed zeros identified"],
    "level_text": "mixed, mostly deductive: relational two-run contracts, discharged for all inputs in the uninterpreted float model U from the real ASTs of ws2dgu, ws2dpgu, ws2dwcv, ws2dwcvp (non-robust), ws2doptv, ws2doptvp, ws2doptvplc and of the solver ws2d itself: two runs whose inputs have the same missing mask and the same valid values return the same int16 band and the same lambda and take the same minimum-valid-count branch, whatever value marks the missing cells (for the zero-filling kernels also NaN / +-inf, bit for bit; for the V-curve kernels any finite placeholder, signed zeros identified). Functional contracts: pass-through below 2 (5) valid cells with lambda 0 (C03, C04, C05 contracts), result as a function of the validity weights and the products w*y. The robust GCV branch is decided by a bounded stand-in comparing every placeholder encoding of the same series and an independent zero-weight re-statement of the robust scheme (labelled bounded)",
    "level_note": "relational contracts proved for 7 of the 8 variants x both asymmetric settings (all but robust=True) and for the solver; robust mode bounded only; float model U with the listed IEEE facts and one no-overflow assumption",
    "technique": "contract-based deductive verification (lockstep self-composition in an uninterpreted float model; functional postconditions over validity weights) + bounded run-time check of the relational contract on placeholder pairs",
    "explanation": "relational obligations are discharged for every kernel except the robust re-weighting branch, which is compared on bounded placeholder pairs",
}

PROPS["C04"] = {
    "modules": ["contracts.c14", "contracts.sel_vcurve"],
    "contracts": ["hdc/algo/ops/ws2doptv.py::ws2doptv@idx", "hdc/algo/ops/ws2doptvp.py::ws2doptvp@idx", "hdc/algo/ops/ws2doptvp.py::_ws2doptvp@idx",
                  "hdc/algo/ops/ws2doptvplc.py::ws2doptvplc@idx", "hdc/algo/ops/ws2doptvplc.py::ws2doptvplc@idx_low", "hdc/algo/ops/ws2doptvplc.py::ws2doptvplc@idx_sym",
                  "hdc/algo/ops/ws2doptvplc.py::ws2doptvplc_tyx@idx",
                  "hdc/algo/ops/ws2doptv.py::ws2doptv@sel", "hdc/algo/ops/ws2doptvp.py::ws2doptvp@sel", "hdc/algo/ops/ws2doptvp.py::_ws2doptvp@sel",
                  "hdc/algo/ops/ws2doptvplc.py::ws2doptvplc@sel"],
    "standin": True,
    "level": "other",
    "trusted": ["selection contracts (variant sel, model R): pow / log / sqrt are uninterpreted functions, so 'minimal' is minimality of the real-valued V-curve expression; floating-point ties are outside the deductive part (the stand-in applies the tie rule)",
                "the core solver enters through the call-site contract ws2d@fn (its result is named WSI(y, lmda, w, n, i), a deterministic function of the arguments); that WSI solves the penalised least-squares system is C01",
                "the core solver (C01) is used by the stand-in's independent V-curve recomputation"],
    "not_proved": ["'the band is exactly what the fixed-lambda smoother returns at the reported lambda' is proved in the form band == round(ws2d(y, lopt, validity weights)) (ws2doptv) and band == round(last envelope reweighting step at lopt) (asymmetric kernels, the form of ws2dpgu's contract, C03); that ws2dgu / ws2dpgu called with lopt return the same array additionally needs (a) ws2d to depend on y only through w*y (C01 normal equations + uniqueness of their solution, assumed) and (b) the same number of envelope iterations in both kernels: compared by the bounded stand-in only",
                   "sgrid = log10(lopt) as float32 and the per-pixel grid choice of the 3-d driver ws2doptvplc_tyx are accessor / driver level: bounded stand-in only",
                   "asymmetric kernels: the (log fit, log roughness) points are those of the curve the warm-started envelope iteration holds at each grid cell (proved as in-loop assertions fit_is_log_wsse / pen_is_log_roughness); that this iteration has converged is not claimed by the statement and not proved"],
    "assumptions": ["integer-valued input cells (int16 data) for the pass-through clause", "lc is not NaN in model R (the NaN grid is the recorded known finding)"],
    "level_text": "mixed, mostly deductive: for all inputs (model R, special functions uninterpreted) the four V-curve kernels ws2doptv, ws2doptvp, _ws2doptvp, ws2doptvplc satisfy functional contracts discharged from their real ASTs: validity weights are 1 - (y == nodata); fits[l] / pens[l] are the logs of the weighted squared residuals and squared second differences of the fitted curve at grid cell l; v is the V-curve of these points per unit log10 lambda; the selected k is its first strict minimum on the grid (v[k] <= v[j] for all j, < for j < k); lopt == 10**((llas[k] + llas[k+1]) / 2); the band is the rounding of the Whittaker curve at lopt (asymmetric: of the last envelope reweighting step at lopt); pixels with fewer than 2 valid cells are passed through with lopt 0; ws2doptvplc searches -2..1.0 (step 0.2) where lc > 0.5 and 0..3.0 elsewhere. Index safety and written-ness as in C14. Float ties, equality with the separately compiled fixed-lambda kernels, sgrid and the 3-d driver are decided by the bounded stand-in (independent numpy recomputation of the V-curve)",
    "level_note": "selection (argmin / midpoint / V-curve formula / band / grid choice) proved for the four kernels in real arithmetic; float ties, cross-kernel equality, sgrid, 3-d driver bounded only; Numba faithful (C13)",
    "technique": "contract-based deductive verification (functional postconditions with loop invariants over spec sums; index/written obligations) + bounded run-time evaluation of the selection contract against an independent V-curve recomputation",
    "explanation": "functional contracts of the selection loops are discharged for all inputs; clauses that need floating-point tie handling or two separately compiled kernels are bounded",
}

PROPS["C05"] = {
    "modules": ["contracts.c14", "contracts.sel_gcv", "contracts.rel_smoothers"],
    "contracts": ["hdc/algo/ops/ws2dwcv.py::ws2dwcv@idx", "hdc/algo/ops/ws2dwcv.py::ws2dwcv@idx_robust", "hdc/algo/ops/ws2dwcvp.py::ws2dwcvp@idx",
                  "hdc/algo/ops/ws2dwcvp.py::ws2dwcvp@idx_robust", "hdc/algo/ops/ws2dwcvp.py::_ws2dwcvp@idx", "hdc/algo/ops/ws2dwcvp.py::_ws2dwcvp@idx_robust",
                  "ghost:contracts/ghost_smooth.py::trh_bridge", "ghost:contracts/ghost_smooth.py::wss_bridge",
                  "hdc/algo/ops/ws2dwcv.py::ws2dwcv@sel", "hdc/algo/ops/ws2dwcvp.py::ws2dwcvp@sel", "hdc/algo/ops/ws2dwcvp.py::_ws2dwcvp@sel",
                  "hdc/algo/ops/ws2dwcv.py::ws2dwcv@rel", "hdc/algo/ops/ws2dwcvp.py::ws2dwcvp@rel"],
    "standin": True,
    "level": "other",
    "trusted": ["selection contracts (variant sel, model R, robust=False): pow / cos / sqrt uninterpreted, so 'minimal' is minimality of the real-valued GCV expression; floating-point ties are outside the deductive part",
                "the core solver enters through the call-site contract ws2d@fn (result named WSI(y, lmda, w, n, i)); np.sum is the recursive spec sum vsum (order of floating-point accumulation not modelled in R)",
                "the core solver (C01) is used by the stand-in's independent GCV recomputation", "np.median as an uninterpreted order statistic in the index contracts"],
    "not_proved": ["robust mode (4 rounds, bisquare weights from the residuals of valid cells, non-degeneracy on constant / linear / mostly-flat series, placeholder independence): bounded stand-in only (independent numpy re-statement of the robust scheme)",
                   "'the band is the fixed-lambda smoother at that lambda' is proved in the form band == round(ws2d(zero-filled y, lopt, validity weights)) resp. the last envelope reweighting step at lopt (the form of ws2dgu / ws2dpgu's contracts, C03); equality with the separately compiled kernels (same number of envelope iterations) is compared by the stand-in",
                   "floating-point ties of the GCV score"],
    "assumptions": ["integer-valued input cells (int16 data) for the pass-through clause"],
    "level_text": "mixed: for robust=False and all inputs (model R, special functions uninterpreted) ws2dwcv, ws2dwcvp and _ws2dwcvp satisfy functional contracts discharged from their real ASTs: every grid value's score is sum (sqrt(w)(y - z))^2 / (sum w (1 - trH / sum w)^2) with z the Whittaker curve at that grid value and trH = sum w / (w + s d^2) (ghost induction lemmas connect np.sum of the vectorised expressions with recursive spec sums); the reported lambda is 10**llas[K] for the first strict minimiser K of the score over the whole grid (or 0 when no score is below the initial 1e15); the band is the rounding of the Whittaker curve at that lambda with the validity weights (asymmetric: last envelope reweighting step); pixels with fewer than 5 valid cells are passed through with lambda 0. Placeholder independence of the non-robust kernels is the relational contract of C02. Index / shape / written obligations for both robust settings as in C14. The robust clauses are decided by the bounded stand-in",
    "level_note": "non-robust selection (score formula / optimality over the grid / lambda from the grid / band / pass-through / placeholder independence) proved; robust clauses bounded only; Numba faithful (C13)",
    "technique": "contract-based deductive verification (functional postconditions, loop invariant over the grid scan, ghost induction lemmas for the vectorised sums; relational contract; index/shape/written obligations) + bounded run-time evaluation against an independent GCV / robust recomputation",
    "explanation": "non-robust GCV selection is a discharged functional contract; the robust re-weighting rounds are outside the subset that the invariants cover and are bounded",
}

PROPS["C06"] = {
    "modules": ["contracts.ops_ws2d", "contracts.ops_smoothers"],
    "contracts": ["hdc/algo/ops/ws2d.py::ws2d"],
    "standin": True,
    "level": "other",
    "trusted": ["ws2d returns a solution of (W + lmda D'D) z = W y for the weights it is given (C01, discharged here again)"],
    "not_proved": ["the three invariances follow from C01 only together with uniqueness of the solution (s.p.d. system) and per-row arithmetic on D'D (annihilation of affine sequences, symmetry of the band); these lemmas are not built, so the clauses are decided by the bounded stand-in on all eight variants",
                   "asymmetric variants start IRLS from the zero curve, which is not shift-invariant: no contract implies the offset clause for them; stand-in only"],
    "assumptions": [],
    "level_text": "bounded for the property's own clauses (linear series reproduced incl. gaps, integer offsets, time reversal; tie rules implemented by recomputing the unrounded curve and the selection criterion) on all eight smoother variants; the deductive ingredient is C01's contract for the core solver (normal equations for every weight pattern), re-discharged by this check",
    "level_note": "C01's solver contract proved; invariance clauses bounded only",
    "technique": "contract-based deductive verification of the core solver + bounded run-time evaluation of the invariance clauses on pairs of runs",
    "explanation": "uniqueness-based lemmas (linear / offset / reversal) not built; see DESIGN.md",
}

def _c11_contracts():
    import contracts.dekad as dk
    return dk.HARNESSES


PROPS["C11"] = {
    "modules": ["contracts.dekad"],
    "contracts_fn": _c11_contracts,
    "standin": True,
    "level": "proof",
    "trusted": ["z3 5.1 / cvc5 1.0.3",
                "CPython datetime as a proleptic Gregorian ordinal: ORD(y,m+1) = ORD(y,m) + dim(y,m), ORD(y+1,1) = ORD(y,12) + 31, datetime(y,m,d) raises for an invalid date (assumed contract; validated exhaustively against CPython by the stand-in)",
                "f-string / int() round trip of fixed-width fields: int(f'{v:04d}') == v for 0 <= v <= 9999 (assumed; validated by the stand-in)",
                "isinstance dispatch follows the type tags of the model values (str / int / date / datetime / Dekad)",
                "the .dekad accessor (pandas Series.apply) is covered by the stand-in only"],
    "not_proved": ["the xarray accessor's element-wise agreement with the scalar class: bounded stand-in"],
    "assumptions": ["integers mathematical"],
    "level_text": "the real class is executed symbolically (every method and property from /repo's AST, inlined) inside loop-free harnesses with fully symbolic inputs, which is a complete proof for all dates 0001-01-01..9999-12-31, all intra-day instants and all integer offsets: membership (start <= instant <= end, days 1-10 / 11-20 / 21-end), abutment of consecutive dekads, ndays = 10, 10, month length - 20, 36 per year, mutual inverses of date / label / raw construction, comparisons and hashing following the raw integer, chronological order following the raw integer (ghost induction over the abutment step), integer translations; every datetime the class constructs is shown to be a valid date (no ValueError). The stand-in re-checks the same laws on the real interpreter, exhaustively in the thorough tier",
    "level_note": "trusted: z3/cvc5; calendar and format/parse axioms for CPython (validated exhaustively by the stand-in); accessor only bounded",
    "explanation": "symbolic harnesses over the real class + ghost induction lemma for monotonicity of the start instant",
}

PROPS["C12"] = {
    "modules": ["contracts.c14", "contracts.ops_spi"],
    "contracts": ["hdc/algo/ops/ws2doptvplc.py::ws2doptvplc_tyx@idx", "hdc/algo/ops/autocorr.py::autocorr@idx", "hdc/algo/ops/autocorr.py::autocorr@idxf",
                  "hdc/algo/ops/autocorr.py::autocorr_tyx@idx", "hdc/algo/ops/autocorr.py::autocorr_tyx@idxf", "hdc/algo/ops/stats.py::gammastd_yxt",
                  "hdc/algo/ops/stats.py::mann_kendall_trend_yxt@idx"],
    "standin": True,
    "level": "other",
    "trusted": ["dask / xarray scheduling semantics, Numba's compiler lock and threading layer: outside any contract on this code base",
                "callees of the prange body (_ws2doptvp, autocorr_1d) are pure: they have no modifies clause and their frame obligations are discharged in their own contracts"],
    "not_proved": ["independence from the dask scheduler / chunking / laziness, dims order, and all interleavings of threads racing on the first call of a lazily compiled kernel: bounded stand-in only (the technique is silent on schedules)",
                   "per-pixel functional independence of the 3-d drivers beyond 'stores hit only the iteration's own slots'"],
    "assumptions": [],
    "level_text": "partially decidable: deductively, for the multi-threaded kernel ws2doptvplc_tyx every store inside the prange body goes either to an array allocated inside the iteration or to a slot indexed by the prange variable (ownership obligations, all discharged), which is data-race freedom for every thread count and schedule; the 3-d drivers' subscripts are in bounds. The dask / scheduler / chunking / dims-order / first-use-race clauses are covered by a bounded stand-in (every accessor operation x chunkings x schedulers x dims orders; prange kernel with 1/4/16 threads; 8 threads racing in a fresh interpreter)",
    "level_note": "ownership (race freedom) and index obligations proved; schedule / dask clauses bounded only",
    "technique": "contract-based deductive verification (ownership obligations for prange stores, frame conditions) + bounded run-time comparison of lazy/eager/threaded executions",
    "explanation": "own obligations in the prange kernel; everything about schedulers is bounded",
}

ALL = ["C%02d" % i for i in range(1, 21)]
NOT_APPLICABLE = {
    "C13": "statement about Numba's type inference/lowering and the ctypes binding of SciPy kernels (the translator), not about functions of /repo: no contract on hdc-algo source can establish or refute it; it is the stated assumption of every proof here",
}
for _p in ALL:
    if _p not in PROPS and _p not in NOT_APPLICABLE:
        NOT_APPLICABLE[_p] = "not yet claimed: contracts for this property are still being built (see DESIGN.md build order)"

"""Ghost procedures for C17 (not part of /repo)."""


def group_gap(xx, groups, grp, nodata, a, b):
    """Positions a..b-1 do not carry label grp: group sum/count are flat over the gap."""
    for s in range(a, b):
        pass


def tiesum_zero(xu, x, n, m):
    """if every distinct value occurs exactly once the tie correction vanishes"""
    for s in range(0, m):
        pass


def pb_mono(n, i):
    """rows of the pair enumeration do not overlap: the cells of row a end before row i starts (a < i)"""
    for s in range(0, i):
        pass


def pb_closed(n, i):
    """closed form of the pair count: 2 * pairs_before(i, n) == i * (2 n - i - 1)"""
    for s in range(0, i):
        pass

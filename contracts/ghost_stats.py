"""Ghost procedures for C17 (not part of /repo)."""


def group_gap(xx, groups, grp, nodata, a, b):
    """Positions a..b-1 do not carry label grp: group sum/count are flat over the gap."""
    for s in range(a, b):
        pass

"""C19 -- hdc/algo/accessors.py::IterativeAggregation._iteragg in slicing mode (hdcv/xmodel.py).

The postcondition is the property's statement over axis positions:  with B = pos(begin) + 1 (default: axis length)
and E = pos(end) (default 0) the generator yields, newest first, exactly the windows [hi - n, hi) for
hi = B, B-1, ..., max(E + 1, n), stamps them with step hi - 1, records agg_start = hi - n, agg_stop = hi - 1, agg_n = n,
and raises ValueError when `dim` is missing or when begin / end cannot be located (indexer returned -1).
"""
import z3

from hdcv import xmodel
from hdcv.spec import contract

KEY = "hdc/algo/accessors.py::IterativeAggregation._iteragg"
VARIANTS = []


def builder(dim, func_given, n_given, begin_given, end_given):
    def build(ex, st):
        S = z3.Int("S"); st.assume(S >= 0)
        has_dim = z3.Bool("has_dim")
        x = xmodel.XObj(dim, S, has_dim)
        st.env["self"] = xmodel.SelfObj(x)
        st.env["func"] = xmodel.OpaqueFunc("reduce") if func_given else None
        N = z3.Int("N")
        st.env["n"] = N if n_given else None
        st.env["dim"] = dim
        PB, PE = z3.Int("PB"), z3.Int("PE")
        st.assume(z3.And(PB >= -1, PB < S, PE >= -1, PE < S))
        st.env["begin"] = xmodel.Label("begin", PB) if begin_given else None
        st.env["end"] = xmodel.Label("end", PE) if end_given else None
        st.env["method"] = None
        # ghost names for the contract
        st.env["S"] = S; st.env["PB"] = PB; st.env["PE"] = PE; st.env["has_dim"] = has_dim
        st.env["NN"] = N if n_given else S
        st.env["B"] = (PB + 1) if begin_given else S
        st.env["E"] = PE if end_given else z3.IntVal(0)
        st.env["LOCATED"] = z3.And(PB != -1 if begin_given else z3.BoolVal(True), PE != -1 if end_given else z3.BoolVal(True))
        for nm in ("YLO", "YHI", "YSTAMP", "YRED", "YSTART", "YSTOP", "YN"):
            st.env[nm] = ex.new_array(st, (z3.Int("YCAP"),), "i8", None, nm)
        st.env["yc"] = z3.IntVal(0)
        st.extra["ygh"] = True
    return build


COUNT = "ite(B - ite(E > NN - 1, E, NN - 1) > 0, B - ite(E > NN - 1, E, NN - 1), 0)"          # B - max(E, n-1), floored at 0
SEQ = ("forall(t, 0, yc, YHI[t] == B - t and YLO[t] == B - t - NN and YN[t] == NN and YSTART[t] == B - t - NN and YSTOP[t] == B - t - 1"
       " and YRED[t] == {red} and YSTAMP[t] == {stamp})")

for dim in ("time", "y"):
    for func_given in (True, False):
        for n_given in (True, False):
            for begin_given in (True, False):
                for end_given in (True, False):
                    var = f"{dim}-{'f' if func_given else 'full'}-{'n' if n_given else 'nN'}-{'b' if begin_given else 'bN'}-{'e' if end_given else 'eN'}"
                    red = 1 if func_given else 0
                    stamp = "B - t - 1" if (func_given and dim == "time") else "-1"
                    seq = SEQ.format(red=red, stamp=stamp)
                    contract(KEY, variant=var, params={},
                        requires={"n_positive": "NN >= 1"} if n_given else {"axis_nonempty": "S >= 1"},
                        ensures={
                            "only_when_locatable": "has_dim and LOCATED",
                            "count": f"yc == {COUNT}",
                            "windows_newest_first": seq,
                        },
                        raises="documented",
                        exc_ensures={"only_for_missing_dim_or_unlocatable_label": "exc == 'ValueError' and (not has_dim or not LOCATED)"},
                        loops={0: {"var": "ii", "invariant": {
                            "range": "0 <= ii and ii <= begin_ix and begin_ix == B and end_ix == E and n == NN and has_dim and LOCATED and B >= 0 and B <= S and E >= 0",
                            "count": "yc == ite(B - ite(ii > NN - 1, ii, NN - 1) > 0, B - ite(ii > NN - 1, ii, NN - 1), 0) and (ii == begin_ix or ii >= E)",
                            "seq": seq,
                        }}},
                        options={"entry_builder": builder(dim, func_given, n_given, begin_given, end_given), "slicing_mode": True, "frame_obligations": False,
                                 "asserts_as_obligations": False, "nloops": 1},
                        props=("C19",))
                    VARIANTS.append(f"{KEY}@{var}")

"""C16 -- hdc/algo/ops/zonal.py::do_mean: exact mean and count of the valid pixels per zone."""
from hdcv.spec import contract, specfn

# row-major sums written from the statement: pixels of zone k whose value is not nodata
VALID = "Z[r, c - 1] == k and Z[r, c - 1] != znd and P[t, r, c - 1] != nd"
specfn("rs", "P:real[,,], Z:int[,], t:int, k:int, nd:real, znd:int, r:int, c:int", "real",
       [("c <= 0", "0.0"), (None, f"rs(P, Z, t, k, nd, znd, r, c - 1) + ite({VALID}, P[t, r, c - 1], 0.0)")],
       doc="sum of the valid zone-k pixels in row r, columns < c")
specfn("rcn", "P:real[,,], Z:int[,], t:int, k:int, nd:real, znd:int, r:int, c:int", "int",
       [("c <= 0", "0"), (None, f"rcn(P, Z, t, k, nd, znd, r, c - 1) + ite({VALID}, 1, 0)")])
specfn("zs", "P:real[,,], Z:int[,], t:int, k:int, nd:real, znd:int, nc:int, r:int", "real",
       [("r <= 0", "0.0"), (None, "zs(P, Z, t, k, nd, znd, nc, r - 1) + rs(P, Z, t, k, nd, znd, r - 1, nc)")],
       doc="sum of the valid zone-k pixels in rows < r")
specfn("zc", "P:real[,,], Z:int[,], t:int, k:int, nd:real, znd:int, nc:int, r:int", "int",
       [("r <= 0", "0"), (None, "zc(P, Z, t, k, nd, znd, nc, r - 1) + rcn(P, Z, t, k, nd, znd, r - 1, nc)")])

A = "pixels, z_pixels"
B = "nodata, z_nodata"
FINAL = (f"result[t, k, 1] == zc({A}, t, k, {B}, NC, NR) and "
         f"ite(zc({A}, t, k, {B}, NC, NR) > 0, result[t, k, 0] == zs({A}, t, k, {B}, NC, NR) / zc({A}, t, k, {B}, NC, NR), result[t, k, 0] == NaN)")
DONE_T = f"forall((t, k), implies(0 <= t and t < tix and 0 <= k and k < num_zones, {FINAL}))"
TODO_T = "forall((t, k), implies(tix < t and t < T and 0 <= k and k < num_zones, result[t, k, 0] == 0.0 and result[t, k, 1] == 0.0))"
CNT_NONNEG = (f"forall(k, 0, num_zones, zc({A}, tix, k, {B}, NC, rw) >= 0 and zc({A}, tix, k, {B}, NC, rw) <= rw * NC)")

for variant, dt in (("default", "float32"), ("f64", "float64")):
    contract("hdc/algo/ops/zonal.py::do_mean", variant=variant,
        params={"pixels": "real[T, NR, NC]", "z_pixels": "int[NR, NC]", "num_zones": "int", "nodata": "real", "z_nodata": "int",
                "out_dtype": f"const('{dt}')"},
        requires={
            "zones": "num_zones >= 0",
            "zone_ids": "forall((r, c), implies(0 <= r and r < NR and 0 <= c and c < NC, z_pixels[r, c] == z_nodata or (0 <= z_pixels[r, c] and z_pixels[r, c] < num_zones)))",
            "zone_size": "NR * NC <= 9007199254740992",      # 2^53: counts exact in the float64 accumulator
        },
        ensures={
            "mean_and_count": f"forall((t, k), implies(0 <= t and t < T and 0 <= k and k < num_zones, {FINAL}))",
            "shape": "result.shape[0] == T and result.shape[1] == num_zones and result.shape[2] == 2",
        },
        loops={
            0: {"var": "tix", "invariant": {"range": "0 <= tix and t == T and nr == NR and nc == NC", "done": DONE_T, "todo": TODO_T.replace("tix < t", "tix <= t")}},
            1: {"var": "rw", "invariant": {
                "range": "0 <= rw and 0 <= tix and tix < T and t == T and nr == NR and nc == NC",
                "acc": f"forall(k, 0, num_zones, result[tix, k, 0] == zs({A}, tix, k, {B}, NC, rw) and result[tix, k, 1] == zc({A}, tix, k, {B}, NC, rw))",
                "cnt_bound": CNT_NONNEG,
                "done": DONE_T, "todo": TODO_T}},
            2: {"var": "cl", "invariant": {
                "range": "0 <= cl and 0 <= rw and rw < NR and 0 <= tix and tix < T and t == T and nr == NR and nc == NC",
                "acc": (f"forall(k, 0, num_zones, result[tix, k, 0] == zs({A}, tix, k, {B}, NC, rw) + rs({A}, tix, k, {B}, rw, cl) and "
                        f"result[tix, k, 1] == zc({A}, tix, k, {B}, NC, rw) + rcn({A}, tix, k, {B}, rw, cl))"),
                "cnt_bound": CNT_NONNEG + f" and forall(k, 0, num_zones, rcn({A}, tix, k, {B}, rw, cl) >= 0 and rcn({A}, tix, k, {B}, rw, cl) <= cl)",
                "done": DONE_T, "todo": TODO_T}},
            3: {"var": "idx", "invariant": {
                "range": "0 <= idx and 0 <= tix and tix < T and t == T and result.shape[1] == num_zones",
                "converted": f"forall((t, k), implies(t == tix and 0 <= k and k < idx, {FINAL}))",
                "pending": f"forall(k, idx, num_zones, result[tix, k, 0] == zs({A}, tix, k, {B}, NC, NR) and result[tix, k, 1] == zc({A}, tix, k, {B}, NC, NR))",
                "done": DONE_T, "todo": TODO_T}},
        },
        options={"nloops": 4, "accum_obligations": True},
        props=("C16", "C14"),
        note="result_acc = the float64 accumulator array before the final cast to the requested dtype")

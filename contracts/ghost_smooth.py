"""Ghost procedures for the smoother kernels (C02/C03/C04/C05).  Not part of /repo."""


def sum01_is_count(w, n):
    """for a 0/1 array the float sum equals the number of positive entries"""
    for s in range(0, n):
        pass


def cntpos_same(w1, w2, n):
    """two weight vectors that are positive at the same positions have the same count of positive entries"""
    for s in range(0, n):
        pass


def trh_bridge(g, w, d, s, n):
    """np.sum of the element-wise array w / (w + s d^2) is the recursive spec sum trh"""
    for t in range(0, n):
        pass


def wss_bridge(g, y, w, s, n):
    """np.sum of the element-wise squared weighted residuals is the recursive spec sum wss"""
    for t in range(0, n):
        pass

"""C05 -- GCV selection (robust=False) as a functional contract (model R; pow / cos / sqrt uninterpreted).

SCORE(q) restates the statement's  sum w (y - z)^2 / (n (1 - trH/n)^2)  at grid value L[q] = 10**llas[q]:
  wss(y, w, s, n, i)   sum over cells < i of (sqrt(w) (y - z))^2, z = WSI(y, s, w, n, .) the Whittaker curve at s
  trh(w, d, s, i)      sum over cells < i of w / (w + s d^2)   (trace of the hat matrix through the eigenvalues d)
The kernel computes these sums with vectorised numpy expressions; ghost induction lemmas (wss_bridge, trh_bridge) connect
np.sum of the element-wise arrays with the recursive spec sums.
"""
from hdcv.spec import contract, specfn
import contracts.sel_vcurve  # noqa: F401  (WSI, ws2d@fn)
from contracts.ops_smoothers import S01, CS, V

OPS = "hdc/algo/ops"
specfn("trh", "w:real[], d:real[], s:real, i:int", "real",
       [("i <= 0", "0.0"), (None, "trh(w, d, s, i - 1) + w[i - 1] / (w[i - 1] + s * ((-1 * d[i - 1]) * (-1 * d[i - 1])))")])
specfn("wss", "y:real[], w:real[], s:real, n:int, i:int", "real",
       [("i <= 0", "0.0"), (None, "wss(y, w, s, n, i - 1) + (sqrt(w[i - 1]) * (y[i - 1] - WSI(y, s, w, n, i - 1))) * (sqrt(w[i - 1]) * (y[i - 1] - WSI(y, s, w, n, i - 1)))")])

TB = "ghost:contracts/ghost_smooth.py::trh_bridge"
contract(TB, params={"g": "real[N]", "w": "real[N]", "d": "real[N]", "s": "real", "n": "int"},
    requires={"len": "0 <= n and n <= N", "cells": "forall(k, 0, n, g[k] == w[k] / (w[k] + s * ((-1 * d[k]) * (-1 * d[k]))))"},
    ensures={"sum": "vsum(g, 0, n) == trh(w, d, s, n)"},
    loops={0: {"var": "t", "invariant": {"range": "0 <= t", "eq": "vsum(g, 0, t) == trh(w, d, s, t)"}}},
    options={"frame_obligations": False}, props=("C05",))
WB = "ghost:contracts/ghost_smooth.py::wss_bridge"
contract(WB, params={"g": "real[N]", "y": "real[N]", "w": "real[N]", "s": "real", "n": "int"},
    requires={"len": "0 <= n and n <= N",
              "cells": "forall(k, 0, n, g[k] == (sqrt(w[k]) * (y[k] - WSI(y, s, w, N, k))) * (sqrt(w[k]) * (y[k] - WSI(y, s, w, N, k))))"},
    ensures={"sum": "vsum(g, 0, n) == wss(y, w, s, N, n)"},
    loops={0: {"var": "t", "invariant": {"range": "0 <= t", "eq": "vsum(g, 0, t) == wss(y, w, s, N, t)"}}},
    options={"frame_obligations": False}, props=("C05",))


def SCORE(q, Y="y", W="w_temp", D="d_eigs", L="lambda_range"):
    ws = f"vsum({W}, 0, N)"
    tr = f"trh({W}, {D}, {L}[{q}], N)"
    return f"(wss({Y}, {W}, {L}[{q}], N, N) / ({ws} * ((1 - {tr} / {ws}) * (1 - {tr} / {ws}))))"


BEST = ("((KK == -1 and gcv_temp[0] == 1000000000000000.0 and gcv_temp[1] == 0) or "
        f"(0 <= KK and KK < sx and gcv_temp[0] == {SCORE('KK')} and gcv_temp[1] == lambda_range[KK] and gcv_temp[0] < 1000000000000000.0))")
SEL = ["ghost:contracts/ghost_smooth.py::trh_bridge", "ghost:contracts/ghost_smooth.py::wss_bridge"]
SEL_LOOP = {"index": "sx", "ghost_assigned": ["KK"], "locals": {"z": "real[N]", "gamma": "real[N]", "y_temp": "real[N]"}, "invariant": {
    "range": "0 <= sx and -1 <= KK and KK < M and lambda_range.size == M and w_temp.size == N and d_eigs.size == N",
    "best": BEST,
    "min": f"forall(q, 0, sx, gcv_temp[0] <= {SCORE('q')})",
    "first": f"forall(q, 0, KK, gcv_temp[0] < {SCORE('q')})"}}
SEL_POST = {
    # the eigenvalues of the second-difference penalty that the trace formula runs over (d[0] is regularised)
    "eigenvalues": "d_eigs[0] == 1e-15 and forall(q, 1, N, d_eigs[q] == -2 + 2 * cos(q * pi() / N))",
    "lambda_from_grid": "ite(KK == -1, LOPT == 0, 0 <= KK and KK < M and LOPT == pow(10.0, llas[KK]))",
    "minimal": f"forall(q, 0, M, ite(KK == -1, {SCORE('q')} >= 1000000000000000.0, {SCORE('KK')} <= {SCORE('q')}))",
    "first_minimum": f"forall(q, 0, KK, {SCORE('KK')} < {SCORE('q')})",
}
SEL_ANCH = {
    "after: tr_H =": [("call", TB, {"g": "gamma", "w": "w_temp", "d": "d_eigs", "s": "s", "n": "N", "N": "N"})],
    "after: wsse =": [("let", "SQ", "((w_temp ** 0.5) * (y - z)) ** 2"),
                      ("call", WB, {"g": "SQ", "y": "y", "w": "w_temp", "s": "s", "n": "N", "N": "N"})],
    "after: gcv_temp = gcv": [("let", "KK", "sx")],
}
WAZ = "ite(y[q] > ZP[q], p, 1 - p)"
for path, name, kind in (("ws2dwcv.py", "ws2dwcv", "sym"), ("ws2dwcvp.py", "ws2dwcvp", "asym"), ("ws2dwcvp.py", "_ws2dwcvp", "jit")):
    gu = kind != "jit"
    LOPT = "lopt[0]" if gu else "lopt"
    post = {k: v.replace("LOPT", LOPT) for k, v in SEL_POST.items()}
    params = {"y": "real[N]", "nodata": "real", "llas": "real[M]", "robust": "const(False)", "out": "i2[N]", "lopt": "real[1]"}
    requires = {"length": "N >= 5", "srange": "M >= 1", "integer_valued_input": "forall(i, 0, N, isint(y[i]))"}
    loops = {1: SEL_LOOP}
    anchors = dict(SEL_ANCH)
    entry = [("let", "KK", "-1")]
    kw = {"modifies": ["out", "lopt"]} if gu else {"result": ("real[N]", "real")}
    ens = {}
    if gu:
        # fewer than 5 valid cells: returned unchanged with a reported lambda of 0 (VW: unit weight on valid cells, from the statement)
        entry.append(("let", "VW", V))
        anchors["after: w ="] = [("have", "w_is_unit_weight", "forall(i, 0, N, w[i] == VW[i])"),
                                 ("call", S01, {"w": "w", "n": "N", "N": "N"}), ("call", CS, {"w1": "w", "w2": "VW", "n": "N", "N": "N"})]
        ens = {"passthrough": "implies(cntpos(VW, N) <= 4, lopt[0] == 0.0 and forall(i, 0, N, real(out[i]) == y[i]))",
               "selects": "implies(cntpos(VW, N) > 4, KK >= -1)"}
    if kind == "sym":
        post["band_is_fixed_lambda_curve"] = "forall(i, 0, N, robust_weights[i] == w[i] and out[i] == rint(WSI(y, lopt[0], robust_weights, N, i)))"
    else:
        params = {"y": "real[N]", "nodata": "real", "p": "real", "llas": "real[M]", "robust": "const(False)", "out": "i2[N]", "lopt": "real[1]"}
        requires["envelope"] = "0 < p and p < 1"
        if kind == "jit":
            params = {"y": "real[N]", "w": "real[N]", "p": "real", "llas": "real[M]", "robust": "const(False)"}
            requires = {"length": "N >= 5", "srange": "M >= 1", "envelope": "0 < p and p < 1"}
        entry.append(("let", "ZP", "arr(k, N, 0.0)"))
        loops[2] = {"var": "_", "ghost_assigned": ["ZP"], "locals": {"ww": "real[N]"}, "invariant": {
            "range": "0 <= _ and _ <= 10 and ZP.size == N and ww.size == N and z.size == N and znew.size == N and wa.size == N",
            "weights": f"implies(_ >= 1, forall(q, 0, N, ww[q] == robust_weights[q] * {WAZ}))"}}
        anchors["after: ww ="] = [("let", "ZP", "z.copy()"), ("have", "ww_def", f"forall(q, 0, N, ww[q] == robust_weights[q] * {WAZ})")]
        cell = "out[i] == rint(WSI(y, lopt[0], ww, N, i))" if gu else "z[i] == rint(WSI(y, lopt, ww, N, i))"
        post["band_is_last_envelope_step"] = f"forall(i, 0, N, robust_weights[i] == w[i] and ww[i] == robust_weights[i] * ite(y[i] > ZP[i], p, 1 - p) and {cell})"
    contract(f"{OPS}/{path}::{name}", variant="sel", fmodel="R", params=params, requires=requires, entry_hints=entry,
             ensures=ens, local_ensures=post, anchors=anchors, loops=loops,
             options={"nloops": 2 if kind == "sym" else 3, "frame_obligations": False, "div_obligations": False, "index_obligations": False},
             call_variant={"ws2d": "fn"}, props=("C05",), note="model R; robust=False", **kw)
    SEL.append(f"{OPS}/{path}::{name}@sel")

"""Symbolic harnesses for C11: loop-free drivers over fully symbolic inputs that call the REAL class
hdc.algo.dekad.Dekad (its methods and properties are executed from /repo's AST).  Every `assert` is an
obligation; a loop-free harness over full-domain symbolic inputs is a complete proof for those inputs."""
from datetime import date, datetime, timedelta

from hdc.algo.dekad import Dekad


def membership(y, m, d, us):
    """every instant (y-m-d + us microseconds) belongs to the dekad days 1-10 / 11-20 / 21-end, start <= instant <= end"""
    inst = datetime(y, m, d) + timedelta(microseconds=us)
    D = Dekad(datetime(y, m, d))
    assert D.year == y and D.month == m
    assert D.idx == min(3, (d - 1) // 10 + 1)
    assert D.raw == 36 * y + 3 * (m - 1) + (D.idx - 1)
    assert D.start_date <= inst
    assert inst <= D.end_date
    assert Dekad(date(y, m, d)).raw == D.raw


def abutment(k):
    """consecutive dekads abut without gap or overlap; fields stay in range; 36 per year"""
    D = Dekad(k)
    N = D + 1
    assert 1 <= D.month and D.month <= 12 and 1 <= D.idx and D.idx <= 3 and 1 <= D.yidx and D.yidx <= 36
    assert D.yidx == 3 * (D.month - 1) + D.idx
    assert D.end_date + timedelta(microseconds=1) == N.start_date
    assert D.start_date < N.start_date
    assert N.raw == k + 1
    assert D.ndays == (N.start_date - D.start_date).days
    assert D.ndays >= 8 and D.ndays <= 11


def month_lengths(y, m):
    """the three dekads of a month have 10, 10 and (month length - 20) days"""
    a = Dekad(36 * y + 3 * (m - 1))
    b = a + 1
    c = a + 2
    assert a.ndays == 10 and b.ndays == 10
    assert a.ndays + b.ndays + c.ndays == ((c + 1).start_date - a.start_date).days
    assert a.month == m and b.month == m and c.month == m and a.year == y and c.year == y
    assert (c + 1).idx == 1 and a.idx == 1 and b.idx == 2 and c.idx == 3


def inverses(k):
    """construction from the start date, from the label and from the raw integer are mutually inverse"""
    D = Dekad(k)
    assert Dekad(D.start_date).raw == k
    assert Dekad(D.raw).raw == k
    assert Dekad(str(D)).raw == k
    assert Dekad(str(D)) == D
    assert hash(Dekad(str(D))) == hash(D)
    assert D.raw == 36 * D.year + 3 * (D.month - 1) + (D.idx - 1)


def order(a, b):
    """comparisons follow the raw integer, which follows chronological order; equal dekads hash equally"""
    A = Dekad(a)
    B = Dekad(b)
    assert (A < B) == (a < b)
    assert (A <= B) == (a <= b)
    assert (A > B) == (a > b)
    assert (A >= B) == (a >= b)
    assert (A == B) == (a == b)
    assert (A != B) == (a != b)
    assert (A.start_date < B.start_date) == (a < b)
    if a == b:
        assert hash(A) == hash(B)
    assert (A == b) == (a == b)
    assert (A < b) == (a < b)


def translations(k, n, j):
    """d + n, d - n, d2 - d1 are integer translations"""
    D = Dekad(k)
    E = D + n
    assert (E - D) == n
    assert (E - n) == D
    assert (n + D) == E
    assert (Dekad(j) - D) == j - k
    assert ((D + n) + 1).raw == k + n + 1


def start_mono(a, b):
    """induction: the start instant is strictly increasing in the raw integer"""
    for s in range(a, b):
        pass

"""C20 -- hdc/algo/ops/tinterpolate.py::tinterpolate."""
from hdcv.spec import contract, specfn
import contracts.ops_ws2d  # noqa: F401  (ws2d contract, cntpos, rowA)

K = "hdc/algo/ops/tinterpolate.py::tinterpolate"

specfn("rid", "lab:int[], i:int", "int",
       [("i <= 0", "0"), (None, "rid(lab, i - 1) + ite(lab[i] != lab[i - 1], 1, 0)")],
       doc="index of the run of equal labels that position i belongs to")
specfn("rsum", "z:real[], lab:int[], k:int, hi:int", "real",
       [("hi <= 0", "0.0"), (None, "rsum(z, lab, k, hi - 1) + ite(rid(lab, hi - 1) == k, z[hi - 1], 0.0)")],
       doc="sum of the daily curve over the days < hi that belong to run k")
specfn("rcnt", "lab:int[], k:int, hi:int", "int",
       [("hi <= 0", "0"), (None, "rcnt(lab, k, hi - 1) + ite(rid(lab, hi - 1) == k, 1, 0)")])

CM = "ghost:contracts/ghost_tint.py::cntpos_mono"
contract(CM, params={"w": "real[N]", "a": "int", "b": "int"},
    requires={"order": "0 <= a and a <= b and b <= N"},
    ensures={"mono": "cntpos(w, a) <= cntpos(w, b)", "bound": "cntpos(w, b) - cntpos(w, a) <= b - a"},
    loops={0: {"var": "s", "invariant": {"range": "a <= s", "mono": "cntpos(w, a) <= cntpos(w, s) and cntpos(w, s) - cntpos(w, a) <= s - a"}}},
    options={"frame_obligations": False}, props=("C20",))
RM = "ghost:contracts/ghost_tint.py::rid_mono"
contract(RM, params={"labels": "int[N]", "a": "int", "b": "int"},
    requires={"order": "0 <= a and a <= b and b < N"},
    ensures={"mono": "rid(labels, a) <= rid(labels, b)", "nonneg": "implies(a == 0, rid(labels, b) >= 0)"},
    loops={0: {"var": "s", "invariant": {"range": "a <= s", "mono": "rid(labels, a) <= rid(labels, s)"}}},
    options={"frame_obligations": False}, props=("C20",),
    note="nonneg needs its own induction; it is established by calling the lemma with a = 0")

FE = "ghost:contracts/ghost_tint.py::future_run_empty"
contract(FE, params={"z": "real[N]", "labels": "int[N]", "k": "int", "hi": "int"},
    requires={"order": "1 <= hi and hi <= N", "future": "k > rid(labels, hi - 1)"},
    ensures={"empty": "rsum(z, labels, k, hi) == 0.0 and rcnt(labels, k, hi) == 0"},
    loops={0: {"var": "s", "invariant": {"range": "0 <= s", "empty": "rsum(z, labels, k, s) == 0.0 and rcnt(labels, k, s) == 0"},
               "head_hints": [("call", RM, {"labels": "labels", "a": "s", "b": "hi - 1", "N": "N"})]}},
    options={"frame_obligations": False}, props=("C20",))

OBS = "ite(template[i] != 0, real(x[cntpos(template, i)]), 0.0)"   # the observation placed on day i (marks only)
MEAN = "rint(rsum(ZC, labels, k, {hi}) / rcnt(labels, k, {hi}))"

contract(K,
    params={"x": "i2[NX]", "template": "real[M]", "labels": "i4[ML]", "template_out": "u1[L]", "out": "i2[L]"},
    modifies=["out"], track_written=["out"],
    requires={
        "daily_axes": "M >= 4 and ML == M",
        "marks": "forall(i, 0, M, template[i] == 0 or template[i] == 1)",
        "as_many_marks_as_observations": "cntpos(template, M) == NX and NX >= 2",
        "one_output_per_run": "L == rid(labels, M - 1) + 1",
    },
    ensures={
        # the daily curve ZC (ghost: the value returned by the solver) is the lmda = 1e-5 Whittaker curve through the marks
        "daily_curve": f"forall(i, 0, M, rowA(template, 0.00001, ZC, i, M) == template[i] * {OBS})",
        "period_means": "forall(k, 0, L, out[k] == " + MEAN.format(hi="M") + ")",
    },
    loops={
        0: {"index": "t", "invariant": {
            "range": "0 <= t and ii == t and jj == cntpos(template, t) and 0 <= jj and jj <= NX",
            "scattered": "forall(i, 0, t, temp[i] == " + OBS + ")",
            "untouched": "forall(i, t, M, temp[i] == template[i])",
            "weights": "forall(i, 0, M, w[i] == template[i])",
        }, "head_hints": [("call", CM, {"w": "template", "a": "t + 1", "b": "M", "N": "M"}),
                          ("call", CM, {"w": "template", "a": "0", "b": "t", "N": "M"})]},
        1: {"index": "t", "locals": {}, "invariant": {
            "range": "0 <= t and ii == t + 1 and ii <= M and kk == rid(labels, ii - 1) and 0 <= kk and kk <= L - 1",
            "run_sum": "v == rsum(ZC, labels, kk, ii) and jj == rcnt(labels, kk, ii) and jj >= 1",
            "done": "forall(k, 0, kk, out[k] == " + MEAN.format(hi="ii") + " and written(out, k))",
            "z": "forall(i, 0, M, z[i] == ZC[i])",
        }, "head_hints": [("call", RM, {"labels": "labels", "a": "ii - 1", "b": "M - 1", "N": "M"}),
                          ("call", RM, {"labels": "labels", "a": "ii", "b": "M - 1", "N": "M"}),
                          ("call", RM, {"labels": "labels", "a": "0", "b": "ii - 1", "N": "M"}),
                          ("call", FE, {"z": "ZC", "labels": "labels", "k": "kk + 1", "hi": "ii", "N": "M"})],
           "entry_hints": [("call", RM, {"labels": "labels", "a": "0", "b": "M - 1", "N": "M"})]},
    },
    anchors={"after: z =": [("let", "ZC", "z")],
             "after: temp[-1] =": [
                 ("have", "last_mark_rank", "implies(template[M - 1] != 0, cntpos(template, M - 1) == NX - 1)", {"only": ["req", "range", "inv:range"]}),
                 ("have", "temp_is_obs", "forall(i, 0, M, implies(template[i] != 0, temp[i] == real(x[cntpos(template, i)])))",
                  {"only": ["have:last_mark_rank", "inv:scattered", "inv:range", "range", "req"]})]},
    options={"nloops": 2, "cast_obligations": False, "by_id": [
        (r"/post/daily_curve", {"only": ["call:ws2d/normal_eq", "have:temp_is_obs", "req:marks", "inv:weights", "inv:range", "range"], "nlabs": False})]},
    props=("C20", "C14"),
    note="model R; the int16 range of the rounded means is the property's own domain restriction (no cast obligation)")

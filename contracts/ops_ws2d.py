"""C01 -- hdc/algo/ops/ws2d.py::ws2d: pentadiagonal LDL' solver returns the solution of (W + lmda D'D) z = W y.

Model R (exact reals).  Proof outline (DESIGN.md Appendix A.1):
  * forward loop: definitional invariants for d, c, e and the forward-substituted right-hand side;
    pivot positivity through the ghost 2x2 Schur-margin matrix (a, b, cc) with the zero / Acond / pd
    state machine on the number of positive weights seen so far (closed lemmas, z3 nlsat);
  * backward loop: every completed row of the normal equations is proved by the `ratfun` back end
    (oriented substitution of the program's own definitions + rational-function normal form).
"""
from hdcv.spec import contract, lemma, specfn

K = "hdc/algo/ops/ws2d.py::ws2d"

specfn("cntpos", "w:real[], hi:int", "int",
       [("hi <= 0", "0"), (None, "cntpos(w, hi - 1) + ite(w[hi - 1] > 0, 1, 0)")],
       doc="number of positive weights among w[0:hi]")

# (W + lmda D'D) row i, written from the property statement: D'D has rows
#   1 -2 1 | -2 5 -4 1 | 1 -4 6 -4 1 | ... | 1 -4 5 -2 | 1 -2 1
specfn("rowA", "w:real[], lmda:real, z:real[], i:int, n:int", "real",
       [("i == 0", "(w[0] + lmda) * z[0] - 2 * lmda * z[1] + lmda * z[2]"),
        ("i == 1", "-2 * lmda * z[0] + (w[1] + 5 * lmda) * z[1] - 4 * lmda * z[2] + lmda * z[3]"),
        ("i == n - 2", "lmda * z[i - 2] - 4 * lmda * z[i - 1] + (w[i] + 5 * lmda) * z[i] - 2 * lmda * z[i + 1]"),
        ("i == n - 1", "lmda * z[i - 2] - 2 * lmda * z[i - 1] + (w[i] + lmda) * z[i]"),
        (None, "lmda * z[i - 2] - 4 * lmda * z[i - 1] + (w[i] + 6 * lmda) * z[i] - 4 * lmda * z[i + 1] + lmda * z[i + 2]")])

# ---------------------------------------------------------------- closed lemmas on the Schur margin
V = {"lam": "real", "w": "real", "a": "real", "b": "real", "cc": "real", "dd": "real"}
PSD = "a >= 0 and cc >= 0 and a * cc - b * b >= 0"
PD = "a > 0 and cc > 0 and a * cc - b * b > 0"
ACOND = f"{PSD} and cc > 0 and b < 0 and a > cc"
DD = "dd"
A1 = f"(4 * lam + cc - (2 * lam - b) * (2 * lam - b) / {DD})"
B1 = f"(-2 * lam + (2 * lam - b) * lam / {DD})"
C1 = f"(lam - lam * lam / {DD})"
PSD1 = f"{A1} >= 0 and {C1} >= 0 and {A1} * {C1} - {B1} * {B1} >= 0"
PD1 = f"{A1} > 0 and {C1} > 0 and {A1} * {C1} - {B1} * {B1} > 0"
ACOND1 = f"{PSD1} and {C1} > 0 and {B1} < 0 and {A1} > {C1}"
BASE = ["lam > 0", "w >= 0", "dd == w + lam + a"]
lemma("schur_dpos", V, BASE + [PSD], [f"{DD} >= lam"])
lemma("schur_psd", V, BASE + [PSD], [PSD1])
lemma("schur_zero0", V, BASE + ["a == 0 and b == 0 and cc == 0", "w == 0"], [f"{A1} == 0 and {B1} == 0 and {C1} == 0"])
lemma("schur_zero1", V, BASE + ["a == 0 and b == 0 and cc == 0", "w > 0"], [ACOND1])
lemma("schur_A", V, BASE + [ACOND], [ACOND1])
lemma("schur_Apd", V, BASE + [ACOND, "w > 0"], [PD1])
lemma("schur_pd", V, BASE + [PD], [PD1])
# last two pivots: d[m-1] = w1 + a,  d[m] = w2 + cc - b*b/d[m-1]
V2 = {"lam": "real", "w1": "real", "w2": "real", "a": "real", "b": "real", "cc": "real", "t1": "real"}
T1 = "t1"
T2 = f"(w2 + cc - b * b / {T1})"
lemma("tail_pd", V2, ["lam > 0", "w1 >= 0", "w2 >= 0", "t1 == w1 + a", PD], [f"{T1} > 0 and {T2} > 0"])
lemma("tail_A", V2, ["lam > 0", "w1 >= 0", "w2 >= 0", "t1 == w1 + a", ACOND, "w1 > 0 or w2 > 0"], [f"{T1} > 0 and {T2} > 0"])
lemma("tail_zero", V2, ["lam > 0", "w1 > 0", "w2 > 0", "t1 == w1 + a", "a == 0 and b == 0 and cc == 0"], [f"{T1} > 0 and {T2} > 0"])

# ---------------------------------------------------------------- the contract
GHOST = {
    "ga": (["i"], "5 * lmda - (c[i - 1] * c[i - 1] * d[i - 1] + e[i - 2] * e[i - 2] * d[i - 2])"),
    "gb": (["i"], "-2 * lmda - d[i - 1] * c[i - 1] * e[i - 1]"),
    "gcc": (["i"], "lmda - e[i - 1] * e[i - 1] * d[i - 1]"),
}


def cond(a, b, cc, what):
    return {"psd": f"{a} >= 0 and {cc} >= 0 and {a} * {cc} - {b} * {b} >= 0",
            "pd": f"{a} > 0 and {cc} > 0 and {a} * {cc} - {b} * {b} > 0",
            "zero": f"{a} == 0 and {b} == 0 and {cc} == 0",
            "acond": f"{a} >= 0 and {cc} >= 0 and {a} * {cc} - {b} * {b} >= 0 and {cc} > 0 and {b} < 0 and {a} > {cc}"}[what]


def schur_inv(i):
    a, b, cc = f"ga({i})", f"gb({i})", f"gcc({i})"
    return {
        "s_psd": cond(a, b, cc, "psd"),
        "s_cnt": f"cntpos(w, {i}) >= 0",
        "s_zero": f"implies(cntpos(w, {i}) == 0, {cond(a, b, cc, 'zero')})",
        "s_acond": f"implies(cntpos(w, {i}) == 1, {cond(a, b, cc, 'acond')})",
        "s_pd": f"implies(cntpos(w, {i}) >= 2, {cond(a, b, cc, 'pd')})",
    }


STEP_A = "4 * lmda + CC - (2 * lmda - B) * (2 * lmda - B) / DD"
STEP_B = "-2 * lmda + (2 * lmda - B) * lmda / DD"
STEP_C = "lmda - lmda * lmda / DD"
BIND = {"lam": "lmda", "w": "W", "a": "A", "b": "B", "cc": "CC", "dd": "DD"}
RF = {"backend": "ratfun"}
FOCUS = {"only": ["have", "use", "let", "range", "inv:s_", "req"], "nlabs": "first"}

ROW0 = "d[0] == w[0] + lmda and c[0] == -2 * lmda / d[0] and e[0] == lmda / d[0] and z[0] == w[0] * y[0]"
ROW1 = ("d[1] == w[1] + 5 * lmda - d[0] * (c[0] * c[0]) and c[1] == (-4 * lmda - d[0] * c[0] * e[0]) / d[1] "
        "and e[1] == lmda / d[1] and z[1] == w[1] * y[1] - c[0] * z[0]")
DK = "d[k] == w[k] + 6 * lmda - c[k - 1] * c[k - 1] * d[k - 1] - e[k - 2] * e[k - 2] * d[k - 2]"
CK = "c[k] == (-4 * lmda - d[k - 1] * c[k - 1] * e[k - 1]) / d[k]"
EK = "e[k] == lmda / d[k]"
FK = "z[k] == w[k] * y[k] - c[k - 1] * z[k - 1] - e[k - 2] * z[k - 2]"

def LOC(*tags):
    return {"only": list(tags) + ["range", "inv:range"]}


forward_inv = {
    "range": "2 <= i and i <= m - 1 and m == N - 1 and n == N",
    "row0": ROW0, "row1": ROW1,
    "D": f"forall(k, 2, i, {DK})", "C": f"forall(k, 2, i, {CK})", "E": f"forall(k, 2, i, {EK})", "F": f"forall(k, 2, i, {FK})",
    "dpos": "forall(k, 0, i, d[k] >= lmda)",
}
forward_inv.update(schur_inv("i"))

# ghost code after `d[i] = ...` inside the forward loop: the new pivot in terms of the Schur margin
AFTER_DI = [
    ("let", "A", "ga(i)"), ("let", "B", "gb(i)"), ("let", "CC", "gcc(i)"), ("let", "W", "w[i]"), ("let", "DD", "d[i]"),
    ("have", "pivot_is_w_lmda_a", "DD == W + lmda + A", RF),
    ("use", "schur_dpos", BIND),
    ("have", "pivot_ge_lmda", "DD >= lmda", FOCUS),
]
END_OF_BODY = [
    ("let", "A1", "ga(i + 1)"), ("let", "B1", "gb(i + 1)"), ("let", "C1", "gcc(i + 1)"),
    ("have", "step_a", f"A1 == {STEP_A}", RF), ("have", "step_b", f"B1 == {STEP_B}", RF), ("have", "step_c", f"C1 == {STEP_C}", RF),
    ("use", "schur_psd", BIND), ("use", "schur_zero0", BIND), ("use", "schur_zero1", BIND), ("use", "schur_A", BIND),
    ("use", "schur_Apd", BIND), ("use", "schur_pd", BIND),
]

# rows 0 and 1 are two steps of the same recurrence started from the zero margin
PREFIX = [
    ("let", "W0", "w[0]"), ("let", "W1", "w[1]"), ("let", "D0", "d[0]"), ("let", "D1", "d[1]"),
    ("let", "P1A", "4 * lmda - 2 * lmda * (2 * lmda) / D0"), ("let", "P1B", "-2 * lmda + 2 * lmda * lmda / D0"), ("let", "P1C", "lmda - lmda * lmda / D0"),
    ("have", "p_d0", "D0 == W0 + lmda + 0", RF),
    ("use", "schur_psd", {"lam": "lmda", "w": "W0", "a": "0.0", "b": "0.0", "cc": "0.0", "dd": "D0"}),
    ("use", "schur_zero0", {"lam": "lmda", "w": "W0", "a": "0.0", "b": "0.0", "cc": "0.0", "dd": "D0"}),
    ("use", "schur_zero1", {"lam": "lmda", "w": "W0", "a": "0.0", "b": "0.0", "cc": "0.0", "dd": "D0"}),
    ("have", "p_d1", "D1 == W1 + lmda + P1A", RF),
    ("let", "P2A", "ga(2)"), ("let", "P2B", "gb(2)"), ("let", "P2C", "gcc(2)"),
    ("have", "p_a2", "P2A == 4 * lmda + P1C - (2 * lmda - P1B) * (2 * lmda - P1B) / D1", RF),
    ("have", "p_b2", "P2B == -2 * lmda + (2 * lmda - P1B) * lmda / D1", RF),
    ("have", "p_c2", "P2C == lmda - lmda * lmda / D1", RF),
]
for _l in ("schur_dpos", "schur_psd", "schur_zero0", "schur_zero1", "schur_A", "schur_Apd", "schur_pd"):
    PREFIX.append(("use", _l, {"lam": "lmda", "w": "W1", "a": "P1A", "b": "P1B", "cc": "P1C", "dd": "D1"}))

ZFK = "zf[k] == w[k] * y[k] - c[k - 1] * zf[k - 1] - e[k - 2] * zf[k - 2]"
AFTER_DM1 = [   # after d[m-1] = ...: positivity of the last two pivots from the count of positive weights
    ("let", "A", "ga(m - 1)"), ("let", "B", "gb(m - 1)"), ("let", "CC", "gcc(m - 1)"), ("let", "W1", "w[m - 1]"), ("let", "W2", "w[m]"),
    ("let", "DM1", "d[m - 1]"),
    ("have", "dm1_is_w_a", "DM1 == W1 + A", RF),
    ("use", "tail_pd", {"lam": "lmda", "w1": "W1", "w2": "W2", "a": "A", "b": "B", "cc": "CC", "t1": "DM1"}),
    ("use", "tail_A", {"lam": "lmda", "w1": "W1", "w2": "W2", "a": "A", "b": "B", "cc": "CC", "t1": "DM1"}),
    ("use", "tail_zero", {"lam": "lmda", "w1": "W1", "w2": "W2", "a": "A", "b": "B", "cc": "CC", "t1": "DM1"}),
    ("have", "count_split", "cntpos(w, N) == cntpos(w, m - 1) + ite(W1 > 0, 1, 0) + ite(W2 > 0, 1, 0)", {"only": ["inv:range", "let", "range"]}),
    ("have", "dm1_pos", "DM1 > 0 and W2 + CC - B * B / DM1 > 0", {"only": ["have", "use", "let", "range", "inv:s_", "req"]}),
]
AFTER_DM = [
    ("let", "DM", "d[m]"),
    ("have", "dm_is_tail", "DM == W2 + CC - B * B / DM1", RF),
    ("have", "dm_pos", "DM > 0", {"only": ["have", "let"]}),
    # canonical array constants for the algebra + the forward facts restated on them
    ("freeze", "d"), ("freeze", "c"), ("freeze", "e"), ("freeze", "z", "zf"),
    ("fact", "FD", f"forall(k, 2, m - 1, {DK})", {"only": ["inv:D", "freeze", "range", "inv:range"]}),
    ("fact", "FC", f"forall(k, 1, m - 1, {CK})", {"only": ["inv:C", "inv:row1", "freeze", "range", "inv:range"]}),
    ("fact", "FE", f"forall(k, 0, m - 1, {EK})", {"only": ["inv:E", "inv:row0", "inv:row1", "freeze", "range", "inv:range"]}),
    ("fact", "FF", f"forall(k, 2, m, {ZFK})", {"only": ["inv:F", "freeze", "range", "inv:range"]}),
    ("fact", "FP", "forall(k, 0, m + 1, d[k] > 0)", {"only": ["inv:dpos", "req", "have:dm", "let", "freeze", "range", "inv:range"]}),
    ("have", "G0", "d[0] == w[0] + lmda and c[0] == -2 * lmda / d[0] and zf[0] == w[0] * y[0]", {"only": ["inv:row0", "inv:row1", "freeze", "range", "inv:range"]}),
    ("have", "G1", "d[1] == w[1] + 5 * lmda - d[0] * (c[0] * c[0]) and zf[1] == w[1] * y[1] - c[0] * zf[0]", {"only": ["inv:row0", "inv:row1", "freeze", "range", "inv:range"]}),
    ("have", "GM1", "d[m - 1] == w[m - 1] + 5 * lmda - c[m - 2] * c[m - 2] * d[m - 2] - e[m - 3] * e[m - 3] * d[m - 3] "
                    "and c[m - 1] == (-2 * lmda - d[m - 2] * c[m - 2] * e[m - 2]) / d[m - 1]", {"only": ["inv:row0", "inv:row1", "freeze", "range", "inv:range"]}),
    ("have", "GM", "d[m] == w[m] + lmda - c[m - 1] * c[m - 1] * d[m - 1] - e[m - 2] * e[m - 2] * d[m - 2]", {"only": ["inv:row0", "inv:row1", "freeze", "range", "inv:range"]}),
]

BK = "z[k] == zf[k] / d[k] - c[k] * z[k + 1] - e[k] * z[k + 2]"
backward_inv = {
    "range": "-1 <= i and i <= m - 2 and m == N - 1",
    "BK": f"forall(k, i + 1, m - 1, {BK})",
    "BM1": "z[m - 1] == zf[m - 1] / d[m - 1] - c[m - 1] * z[m]",
    "BM": "z[m] == (w[m] * y[m] - c[m - 1] * zf[m - 1] - e[m - 2] * zf[m - 2]) / d[m]",
    "TODO": "forall(k, 0, i + 1, z[k] == zf[k])",
}


def _inst(fact, k):
    return ("instfact", fact, {"k": k})


ROWI = "lmda * z[j - 2] - 4 * lmda * z[j - 1] + (w[j] + 6 * lmda) * z[j] - 4 * lmda * z[j + 1] + lmda * z[j + 2] == w[j] * y[j]"
EXIT1 = [
    # interior rows 2..m-2 : generalisation over a fresh j; order of the rewrites = reverse program order
    ("forall_intro", "j", "2", "m - 1", [
        ("inst", "BK", {"k": "j - 2"}), ("inst", "BK", {"k": "j - 1"}), ("inst", "BK", {"k": "j"}),
        _inst("FF", "j"), _inst("FC", "j"), _inst("FE", "j"), _inst("FD", "j"), _inst("FC", "j - 1"), _inst("FE", "j - 1"), _inst("FE", "j - 2"),
    ], "row_interior", ROWI, RF),
    # boundary rows
    ("scope", [
        ("inst", "BK", {"k": "0"}), ("have", "zf0", "zf[0] == w[0] * y[0]", {"only": ["have"]}),
        ("have", "e0", "e[0] == lmda / d[0]", {"only": ["have", "inv:range", "range"]}), ("have", "c0", "c[0] == -2 * lmda / d[0]", {"only": ["have"]}), ("have", "d0", "d[0] == w[0] + lmda", {"only": ["have"]}),
    ], "row_0", "(w[0] + lmda) * z[0] - 2 * lmda * z[1] + lmda * z[2] == w[0] * y[0]", RF),
    ("scope", [
        ("inst", "BK", {"k": "0"}), ("inst", "BK", {"k": "1"}),
        ("have", "zf1", "zf[1] == w[1] * y[1] - c[0] * zf[0]", {"only": ["have"]}),
        _inst("FC", "1"), _inst("FE", "1"),
        ("have", "d1", "d[1] == w[1] + 5 * lmda - d[0] * (c[0] * c[0])", {"only": ["have"]}),
        ("have", "e0", "e[0] == lmda / d[0]", {"only": ["have", "inv:range", "range"]}), ("have", "c0", "c[0] == -2 * lmda / d[0]", {"only": ["have"]}),
    ], "row_1", "-2 * lmda * z[0] + (w[1] + 5 * lmda) * z[1] - 4 * lmda * z[2] + lmda * z[3] == w[1] * y[1]", RF),
    ("scope", [
        ("inst", "BK", {"k": "m - 3"}), ("inst", "BK", {"k": "m - 2"}),
        ("have", "bm1", "z[m - 1] == zf[m - 1] / d[m - 1] - c[m - 1] * z[m]", {"only": ["inv:BM1"]}),
        _inst("FF", "m - 1"),
        ("have", "cm1", "c[m - 1] == (-2 * lmda - d[m - 2] * c[m - 2] * e[m - 2]) / d[m - 1]", {"only": ["have"]}),
        ("have", "dm1", "d[m - 1] == w[m - 1] + 5 * lmda - c[m - 2] * c[m - 2] * d[m - 2] - e[m - 3] * e[m - 3] * d[m - 3]", {"only": ["have"]}),
        _inst("FC", "m - 2"), _inst("FE", "m - 2"), _inst("FE", "m - 3"),
    ], "row_m1", "lmda * z[m - 3] - 4 * lmda * z[m - 2] + (w[m - 1] + 5 * lmda) * z[m - 1] - 2 * lmda * z[m] == w[m - 1] * y[m - 1]", RF),
    ("scope", [
        ("inst", "BK", {"k": "m - 2"}),
        ("have", "bm1", "z[m - 1] == zf[m - 1] / d[m - 1] - c[m - 1] * z[m]", {"only": ["inv:BM1"]}),
        ("have", "bm", "z[m] == (w[m] * y[m] - c[m - 1] * zf[m - 1] - e[m - 2] * zf[m - 2]) / d[m]", {"only": ["inv:BM"]}),
        ("have", "dm", "d[m] == w[m] + lmda - c[m - 1] * c[m - 1] * d[m - 1] - e[m - 2] * e[m - 2] * d[m - 2]", {"only": ["have"]}),
        _inst("FE", "m - 2"),
    ], "row_m", "lmda * z[m - 2] - 2 * lmda * z[m - 1] + (w[m] + lmda) * z[m] == w[m] * y[m]", RF),
]

contract(K,
    params={"y": "real[N]", "lmda": "real", "w": "real[N]"},
    result="real[N]",
    requires={"length": "N >= 4", "lambda_positive": "lmda > 0", "weights_nonneg": "forall(i, 0, N, w[i] >= 0)",
              "two_positive_weights": "cntpos(w, N) >= 2"},
    ensures={
        "shape": "result.size == N",
        # the property: z solves (W + lmda D'D) z = W y, row by row
        "normal_eq": "forall(r, 0, N, rowA(w, lmda, result, r, N) == w[r] * y[r])",
    },
    ghost=GHOST,
    loops={
        0: {"var": "i", "invariant": forward_inv, "entry_hints": PREFIX, "hints": END_OF_BODY,
            "by": {"init/s_psd": FOCUS, "init/s_zero": FOCUS, "init/s_acond": FOCUS, "init/s_pd": FOCUS, "init/s_cnt": FOCUS,
                   "pres/s_psd": FOCUS, "pres/s_zero": FOCUS, "pres/s_acond": FOCUS, "pres/s_pd": FOCUS, "pres/s_cnt": FOCUS,
                   "pres/row0": LOC("inv:row0"), "pres/row1": LOC("inv:row1"), "pres/D": LOC("inv:D"), "pres/C": LOC("inv:C"),
                   "pres/E": LOC("inv:E"), "pres/F": LOC("inv:F"), "pres/dpos": LOC("inv:dpos", "have:pivot_ge_lmda", "let"),
                   "init/dpos": {"only": ["have", "use", "let", "req"]}}},
        1: {"var": "i", "invariant": backward_inv, "exit_hints": EXIT1,
            "by": {"pres/BK": LOC("inv:BK", "inv:TODO"), "pres/BM1": LOC("inv:BM1"), "pres/BM": LOC("inv:BM"), "pres/TODO": LOC("inv:TODO"),
                   "init/BK": LOC("freeze"), "init/BM1": LOC("freeze"), "init/BM": LOC("freeze"), "init/TODO": LOC("freeze")}},
    },
    anchors={
        "after: d[i] =": AFTER_DI,
        "after: d[m - 1] =": AFTER_DM1,
        "after: d[m] =": AFTER_DM,
    },
    options={"nloops": 2, "by_id": [
        (r"ws2d/div/.*z\[i\]/d\[i\]", {"only": ["have:FP", "range", "inv:range"]}),
        (r"ws2d/post/normal_eq", {"only": ["have:row_", "range", "inv:range", "req:length"]}),
    ]},
    props=("C01", "C14"),
    note="exact reals (model R): the statement's 'identically equal in exact rational arithmetic' clause")

"""Record, for every sidecar contract, the loop headers of the source it was written against (contracts/loop_heads.json).

The sidecars bind invariants to loops by ordinal.  A later edit that adds, removes or reorders loops would silently attach an
invariant to a different loop and the failing inv.* obligations would be reported as a property violation although only the
binding broke.  verify_function compares the number of loops and the loop variable of every loop that carries an invariant with the
current source (a changed bound or iterable is left to the invariants) and reports a *binding failure*
(undecided by proof, the bounded stand-in decides) instead.  Re-run this script after editing a sidecar:  python3-vt gen_loop_heads.py
It is never run by a check."""
import ast, importlib, json, sys
sys.path.insert(0, "/verif")
from hdcv import frontend, spec
from contracts import props

for P in props.PROPS.values():
    for m in P.get("modules", []):
        importlib.import_module(m)
out = {}
for (key, variant), c in sorted(spec.REGISTRY.items()):
    try:
        fs = frontend.load(c.path, c.qualname)
    except Exception as exc:
        print("skip", key, variant, exc)
        continue
    heads = [frontend.loop_head(n) for n in fs.loops]
    out[f"{key}@{variant}"] = {"nloops": len(heads), "heads": heads}
json.dump(out, open("/verif/contracts/loop_heads.json", "w"), indent=0, sort_keys=True)
print(len(out), "contracts recorded")

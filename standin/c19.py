"""C19 bounded stand-in (exhaustive over the domain the property names): iteragg.sum/mean/full."""
import itertools

import numpy as np
import pandas as pd
import xarray as xr

import hdc.algo  # noqa: F401


def cube(L, rng, nan=False):
    data = rng.integers(1, 50, (L, 2, 1)).astype("float64")
    if nan:
        data[rng.random(data.shape) < 0.3] = np.nan
    x = xr.DataArray(data, dims=("time", "y", "x"), name="band")
    x["time"] = pd.date_range("2000-01-01", periods=L, freq="10D")
    return x


def expected_windows(L, n, b, e):
    out = []
    for last in range(b, e - 1, -1):
        if last - n + 1 >= 0:
            out.append((last - n + 1, last))
    return out


def check(x, kind, n, b, e, rep, kw_extra=None, name="iteragg"):
    L = x.sizes["time"]
    kw = dict(kw_extra or {})
    if b is not None:
        kw["begin"] = x.time.values[b]
    if e is not None:
        kw["end"] = x.time.values[e]
    case = {"L": L, "kind": kind, "n": n, "begin": b, "end": e, "extra": {k: str(v) for k, v in (kw_extra or {}).items()}}
    rep.case(name, case)
    want = expected_windows(L, n, L - 1 if b is None else b, 0 if e is None else e)
    try:
        got = list(itertools.islice(getattr(x.hdc.iteragg, kind)(n, **kw), L + 5))
    except ValueError as exc:
        rep.violation(name, "IterativeAggregation._iteragg", case, f"unexpected ValueError: {exc}")
        return
    if len(got) != len(want):
        rep.violation(name, "IterativeAggregation._iteragg", case, f"{len(got)} results, expected {len(want)} windows {want[:4]}")
        return
    idx = x.time.to_index()
    for g, (s, l) in zip(got, want):
        win = x.isel(time=slice(s, l + 1))
        ok_attrs = g.attrs.get("agg_start") == str(idx[s]) and g.attrs.get("agg_stop") == str(idx[l]) and g.attrs.get("agg_n") == n
        if kind == "full":
            ok = g.sizes["time"] == n and np.array_equal(g.values, win.values, equal_nan=True)
        else:
            ref = np.nansum(win.values, axis=0) if kind == "sum" else np.nanmean(win.values, axis=0)
            ok = g.sizes.get("time") == 1 and np.allclose(g.values[0], ref, equal_nan=True) and g.time.values[0] == x.time.values[l]
        if not (ok and ok_attrs):
            rep.violation(name, "IterativeAggregation._iteragg", case, f"window ({s},{l}): values/stamp ok={ok}, attrs ok={ok_attrs} attrs={dict(g.attrs)}")
            return


def expect_error(x, kw, rep, name):
    case = {"L": x.sizes["time"], "kw": {k: str(v) for k, v in kw.items()}}
    rep.case(name, case)
    try:
        got = list(itertools.islice(x.hdc.iteragg.sum(2, **kw), 40))
        rep.violation(name, "IterativeAggregation._iteragg", case, f"no ValueError; {len(got)} results yielded" + (" (unbounded?)" if len(got) >= 40 else ""))
    except ValueError:
        pass


def run(tier, rng, rep):
    LMAX = 12 if tier == "thorough" else 7
    rep.bound = f"all axis lengths 1..{LMAX}, all n in 1..length+1, all begin/end on the axis (exhaustive), sum/mean/full; off-axis labels with/without method; non-time dim; NaN cubes"
    rep.rule = "exhaustive enumeration of (length, n, begin, end, kind); distinct = distinct tuple"
    import warnings
    warnings.simplefilter("ignore")
    for L in range(1, LMAX + 1):
        x = cube(L, rng, nan=(L % 2 == 0))
        for n in range(1, L + 2):
            for b in [None] + list(range(L)):
                for e in [None] + list(range(L)):
                    for kind in (("sum", "mean", "full") if L <= 5 else ("sum",)):
                        check(x, kind, n, b, e, rep)
        # labels that are not on the axis
        off = x.time.values[0] + np.timedelta64(3, "D")
        before = x.time.values[0] - np.timedelta64(30, "D")
        after = x.time.values[-1] + np.timedelta64(30, "D")
        for lab in (off, before, after):
            expect_error(x, {"begin": lab}, rep, "iteragg.off_axis.begin")
            expect_error(x, {"end": lab}, rep, "iteragg.off_axis.end")
        expect_error(x, {"begin": before, "method": "ffill"}, rep, "iteragg.off_axis.ffill_before")
        expect_error(x, {"end": after, "method": "bfill"}, rep, "iteragg.off_axis.bfill_after")
        # with a lookup method an off-axis label resolves to a neighbour
        if L >= 2:
            check(x, "sum", 1, 1, None, rep, None, "iteragg.on_axis")
            idx = x.time.to_index()
            pos = int(idx.get_indexer([off], method="nearest")[0])
            case = {"L": L, "method": "nearest"}
            rep.case("iteragg.nearest", case)
            got = list(x.hdc.iteragg.sum(1, begin=off, method="nearest"))
            if len(got) != pos + 1:
                rep.violation("iteragg.nearest", "IterativeAggregation._iteragg", case, f"{len(got)} results, nearest position {pos}")
    # missing dim -> ValueError ; non-time dim works
    x = cube(4, rng)
    rep.case("iteragg.dim", {})
    try:
        list(x.hdc.iteragg.sum(2, dim="nope"))
        rep.violation("iteragg.dim", "IterativeAggregation._iteragg", {}, "missing dim did not raise")
    except ValueError:
        pass
    got = list(x.hdc.iteragg.sum(1, dim="y"))
    if len(got) != 2:
        rep.violation("iteragg.dim", "IterativeAggregation._iteragg", {"dim": "y"}, f"{len(got)} results over y (size 2)")


def replay(v, rep):
    c = v.get("case", {})
    if "kind" in c:
        rng = np.random.default_rng(0)
        check(cube(c["L"], rng), c["kind"], c["n"], c["begin"], c["end"], rep)
    elif "kw" in c:
        rng = np.random.default_rng(0)
        x = cube(c["L"], rng)
        kw = {k: (np.datetime64(val) if k in ("begin", "end") else val) for k, val in c["kw"].items()}
        expect_error(x, kw, rep, v.get("check", "iteragg.off_axis"))

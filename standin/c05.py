"""C05 bounded stand-in: GCV selection is optimal on the grid; robust mode never degenerates."""
import numpy as np
import xarray as xr

import hdc.algo  # noqa: F401
from hdc.algo.ops import ws2dgu, ws2dpgu, ws2dwcv, ws2dwcvp
from standin.select_ref import gcv_scores
from standin.smooth_common import gappy_series

ND = -3000.0


def check_plain(y, miss, llas, p, rep):
    yy = y.copy(); yy[miss] = ND
    w = (~miss).astype("float64")
    name = "wcv" if p is None else "wcvp"
    case = {"n": len(y), "nvalid": int(w.sum()), "srange": [float(llas[0]), float(llas[1] - llas[0]) if len(llas) > 1 else 0.0, len(llas)], "p": p, "y": yy.tolist() if len(y) <= 40 else None}
    rep.case(name, case)
    out, lopt = (ws2dwcv(yy, ND, llas, False) if p is None else ws2dwcvp(yy, ND, p, llas, False))
    lopt = float(lopt)
    grid = 10 ** llas
    j = int(np.argmin(np.abs(grid - lopt) / grid))
    if abs(grid[j] - lopt) > 1e-9 * grid[j]:
        rep.violation(name + ".grid", name, case, f"lopt={lopt} is not drawn from 10**srange")
        return
    sc = gcv_scores(np.where(miss, 0.0, y), w, llas)
    if not np.all(np.isfinite(sc)) or (sc >= 1e15).all():
        return
    k = int(np.argmin(sc))      # first minimiser
    if j != k and not abs(sc[j] - sc[k]) <= 1e-9 * max(1e-300, abs(sc[k])):
        rep.violation(name + ".argmin", name, case, f"selected grid entry {j} (score {sc[j]:.6g}) but the GCV minimum is entry {k} (score {sc[k]:.6g})")
        return
    fixed = ws2dgu(yy, lopt, ND) if p is None else ws2dpgu(yy, lopt, ND, p)
    if not np.array_equal(out, fixed):
        d = np.flatnonzero(out != fixed)
        rep.violation(name + ".band", name, case, f"band differs from the fixed-lambda smoother at lopt={lopt} at cells {d.tolist()[:6]}")


def robust_reference(y0, w, llas, p):
    """independent numpy re-statement of the robust GCV scheme of the statement: 4 rounds, bisquare weights from the
    residuals of the cells that carry weight, positive residuals keep weight 1, rounds 3-4 keep the lambda of round 2"""
    from hdc.algo.ops.ws2d import ws2d
    from standin.select_ref import irls10
    m = len(y0)
    n = w.sum()
    eig = -2 + 2 * np.cos(np.arange(m) * np.pi / m); eig[0] = 1e-15
    rw = np.ones(m)
    best = [1e15, 0.0]
    hist = []
    ytemp = None
    for it in range(4):
        grid = np.array([hist[1][1]]) if it > 1 else 10 ** llas
        wt = w * rw
        for s in grid:
            z = ws2d(y0, s, wt)
            gamma = wt / (wt + s * ((-1 * eig) ** 2))
            score = (((wt ** 0.5) * (y0 - z)) ** 2).sum() / (wt.sum() * (1 - gamma.sum() / wt.sum()) ** 2)
            if score < best[0]:
                best = [score, s]; ytemp = z
        s = best[1]
        gamma = wt / (wt + s * ((-1 * eig) ** 2))
        r = y0 - ytemp
        sel = wt != 0
        mad = np.median(np.abs(r[sel] - np.median(r[sel])))
        if mad > 1e-10 * max(1.0, np.max(np.abs(r[sel]))):
            u = r / (1.4826 * mad * np.sqrt(1 - gamma.sum() / n))
            rw = (1 - (u / 4.685) ** 2) ** 2
            rw[np.abs(u / 4.685) > 1] = 0
            rw[r > 0] = 1
        hist.append(list(best))
    lopt = hist[1][1]
    rwt = w * rw
    if p is None:
        z = ws2d(y0, lopt, rwt)
    else:
        z = irls10(y0, lopt, rwt, p)[0]
    return np.round(z), lopt


def check_robust(kind, y, miss, llas, p, rep):
    yy = y.copy(); yy[miss] = ND
    name = "robust" if p is None else "robust.p"
    case = {"kind": kind, "n": len(y), "nvalid": int((~miss).sum()), "p": p, "y": yy.tolist() if len(y) <= 40 else None}
    rep.case(name + "." + kind, case)
    out, lopt = (ws2dwcv(yy, ND, llas, True) if p is None else ws2dwcvp(yy, ND, p, llas, True))
    lopt = float(lopt)
    grid = 10 ** llas
    if not np.isfinite(lopt) or np.min(np.abs(grid - lopt) / grid) > 1e-9:
        rep.violation(name + ".grid", "ws2dwcv", case, f"lopt={lopt} is not drawn from 10**srange")
        return
    v = y[~miss]
    # "smoothed, not zeroed": the band stays within the range of the data (up to the asymmetric envelope's overshoot of spikes)
    lo, hi = v.min(), v.max()
    span = max(1.0, hi - lo)
    inside = out[~miss]
    if (v != 0).any() and (out == 0).all():
        rep.violation(name + ".zeroed", "ws2dwcv", case, f"band is all zeros for a '{kind}' series (lopt={lopt})")
        return
    if inside.min() < lo - span or inside.max() > hi + span:
        rep.violation(name + ".finite", "ws2dwcv", case, f"band leaves the data range: [{inside.min()}, {inside.max()}] vs data [{lo}, {hi}]")
        return
    if kind in ("constant", "linear") and p is None:
        want = np.round(np.polyval(np.polyfit(np.flatnonzero(~miss), v, 1), np.arange(len(y)))) if kind == "linear" else np.full(len(y), v[0])
        if np.abs(out - want).max() > 1:
            rep.violation(name + "." + kind, "ws2dwcv", case, f"{kind} series not reproduced: {out.tolist()[:8]}")
            return
    # missing cells carry zero weight through all robust rounds: compare with an independent re-statement of the scheme
    try:
        refband, reflopt = robust_reference(np.where(miss, 0.0, y), (~miss).astype("float64"), llas, p)
        if abs(reflopt - lopt) <= 1e-9 * reflopt and np.abs(out.astype(float) - refband).max() > 1 and np.abs(refband).max() < 32000:
            d = np.flatnonzero(np.abs(out.astype(float) - refband) > 1)
            rep.violation(name + ".weights", "ws2dwcv", case, f"band differs from the robust scheme with zero weight on missing cells at cells {d.tolist()[:6]} (e.g. {int(out[d[0]])} vs {refband[d[0]]:.0f}); missing cells: {np.flatnonzero(miss).tolist()[:8]}")
            return
    except ZeroDivisionError:
        pass
    # independence from the placeholder
    y2 = y.copy(); y2[miss] = 30000.0
    out2, lopt2 = (ws2dwcv(y2, 30000.0, llas, True) if p is None else ws2dwcvp(y2, 30000.0, p, llas, True))
    if not np.array_equal(out, out2) or float(lopt2) != lopt:
        rep.violation(name + ".placeholder", "ws2dwcv", case, f"nodata -3000 vs 30000: lopt {lopt} vs {float(lopt2)}, band differs at {np.flatnonzero(out != out2).tolist()[:6]}")


def run(tier, rng, rep):
    rep.bound = "series 5..120 with >= 5 valid cells, sranges with 2..40 entries, robust in {False, True}, p in (0,1) or none; degenerate residual distributions (constant, exactly linear, flat with spikes, two-level)"
    rep.rule = "random series (seeded) + structured degenerate series; distinct = distinct (check, series, srange, p)"
    default = np.arange(-1.8, 4.2, 0.2)
    for it in range(30 if tier == "quick" else 250):
        n = int(rng.choice([5, 6, 9, 20, 50, 120]))
        y, miss = gappy_series(rng, n, rng.choice(["none", "random", "runs", "leading", "trailing"]), 0, 10000)
        if (~miss).sum() < 5:
            continue
        nl = int(rng.choice([2, 3, 8, 30, 40]))
        start = float(rng.uniform(-3, 1)); step = min(float(rng.choice([0.1, 0.2, 0.5])), (8.0 - start) / max(1, nl - 1))
        llas = start + step * np.arange(nl)
        p = [None, 0.9, 0.5, 0.1][it % 4]
        check_plain(y, miss, llas, p, rep)
        check_robust("random", y, miss, default, p, rep)
    # seasonal cycle carrying a short ripple: the GCV curve has two valleys (shallow at the lightest lambda, deep further up)
    for m, per, rip, amp in ((60, 36.0, 3.0, 600), (72, 36.0, 3.0, 900), (90, 30.0, 4.0, 500), (48, 24.0, 3.0, 700)):
        t = np.arange(m)
        y = np.rint(4000 + 2500 * np.sin(2 * np.pi * t / per) + amp * np.sin(2 * np.pi * t / rip))
        miss = np.zeros(m, bool); miss[[7, 8, 31]] = True
        for llas in (default, np.linspace(-2.0, 4.0, 13), np.arange(-2.0, 4.1, 0.1)):
            for p in (None, 0.9):
                check_plain(y, miss, llas, p, rep)
    # series with negative values (fitted curve negative at missing cells)
    for it in range(12 if tier == "quick" else 80):
        n = int(rng.choice([12, 30, 60]))
        y = rng.integers(-5000, 5000, n).astype("float64")
        miss = rng.random(n) < 0.25
        if (~miss).sum() < 5:
            continue
        for p in (None, 0.9):
            check_robust("signed", y, miss, default, p, rep)
            check_plain(y, miss, default, p, rep)
    for n in (6, 12, 30, 90):
        t = np.arange(n)
        structured = {
            "constant": np.full(n, 7.0), "linear": 8.0 * t, "linear-down": 5000.0 - 13.0 * t,
            "flat-with-spikes": np.where(t % 7 == 3, 3000.0, 100.0), "two-level": np.where(t < n // 2, 100.0, 900.0),
            "mostly-flat": np.where(t % 5 == 0, 100.0 + t, 100.0),
        }
        for kind, y in structured.items():
            for gaps in (False, True):
                miss = np.zeros(n, bool)
                if gaps and n >= 12:
                    miss[[2, 5, n - 3]] = True
                if (~miss).sum() < 5:
                    continue
                for p in (None, 0.9):
                    check_robust(kind, y.astype("float64"), miss, default, p, rep)
    # accessor defaults: srange arange(-1.8, 4.2, 0.2), robust=True, sgrid = log10(lopt)
    t = 20
    cube = rng.integers(0, 9000, (t, 2, 2)).astype("int16")
    da = xr.DataArray(cube, dims=("time", "y", "x"))
    da["time"] = np.array([np.datetime64("2001-01-01") + np.timedelta64(int(k) * 10, "D") for k in range(t)])
    # nodata = 0 must be honoured even when the array carries another nodata attribute
    c0 = cube.copy(); c0[rng.random(c0.shape) < 0.2] = 0
    da0 = xr.DataArray(c0, dims=("time", "y", "x"), attrs={"nodata": -9999}); da0["time"] = da["time"]
    ds0 = da0.hdc.whit.whitswcv(nodata=0, robust=False).transpose("time", "y", "x")
    rep.case("accessor.whitswcv.nodata0", {})
    for r in range(2):
        for c in range(2):
            o, l = ws2dwcv(c0[:, r, c].astype("float64"), 0.0, default, False)
            if not np.array_equal(ds0.band.values[:, r, c], o):
                rep.violation("accessor.whitswcv.nodata0", "WhittakerSmoother.whitswcv", {"pixel": [r, c]}, "whitswcv(nodata=0) does not treat the 0-coded cells as missing (band differs from the kernel called with nodata=0)")
    for p in (None, 0.9):
        ds = da.hdc.whit.whitswcv(nodata=ND, p=p).transpose("time", "y", "x")
        rep.case("accessor.whitswcv", {"p": p})
        for r in range(2):
            for c in range(2):
                px = cube[:, r, c].astype("float64")
                o, l = (ws2dwcv(px, ND, default, True) if p is None else ws2dwcvp(px, ND, p, default, True))
                if not np.array_equal(ds.band.values[:, r, c], o) or ds.sgrid.values[r, c] != np.float32(np.log10(float(l))):
                    rep.violation("accessor.whitswcv", "WhittakerSmoother.whitswcv", {"p": p, "pixel": [r, c]}, "accessor defaults differ from kernel(default srange, robust=True) / sgrid != log10(lopt)")


def replay(v, rep):
    c = v.get("case", {})
    if c.get("y") is None:
        rep.notes.append("re-run with the same VERIF_SEED"); return
    yy = np.array(c["y"], dtype="float64"); miss = yy == ND
    if "kind" in c:
        check_robust(c["kind"], np.where(miss, 0.0, yy), miss, np.arange(-1.8, 4.2, 0.2), c["p"], rep)
    else:
        s0, st, nl = c["srange"]
        check_plain(np.where(miss, 0.0, yy), miss, s0 + st * np.arange(nl), c["p"], rep)

"""C18 bounded stand-in: lroo / croo against the run-length definition (pure python oracle)."""
import itertools

import numpy as np
import xarray as xr

import hdc.algo  # noqa: F401  (registers accessors)
from hdc.algo.ops import lroo


def longest_run(bits):
    best = cur = 0
    for b in bits:
        cur = cur + 1 if b == 1 else 0
        best = max(best, cur)
    return best if best >= 2 else 0


def current_run(bits_chrono):
    n = 0
    for b in reversed(bits_chrono):
        if b != 1:
            break
        n += 1
    return n


def check_lroo(bits, rep, check="lroo"):
    a = np.array(bits, dtype="uint8")
    rep.case(check, bits, nontrivial=True)
    got = int(lroo(a))
    want = longest_run(bits)
    if got != want:
        rep.violation(check, "lroo", {"bits_runs": _rle(bits), "n": len(bits)}, f"lroo={got}, longest run of ones (>=2) = {want}",
                      tags=["run>255"] if want > 255 else [])
    pf = getattr(lroo, "__wrapped__", None)
    if pf is not None and len(bits) <= 64:
        out = np.zeros(1, dtype=a.dtype if False else _out_dtype())
        pf(a, out)
        if int(out[0]) != want:
            rep.violation(check + ".py", "lroo", {"bits_runs": _rle(bits), "n": len(bits)}, f"interpreted lroo={int(out[0])}, want {want}")


def _out_dtype():
    return "int64"


def _rle(bits):
    out = []
    for b in bits:
        if out and out[-1][0] == b:
            out[-1][1] += 1
        else:
            out.append([int(b), 1])
    return out


def _unrle(r):
    bits = []
    for b, n in r:
        bits += [b] * n
    return bits


def check_croo(bits, perm, rep):
    """bits in chronological order; stored in order perm."""
    n = len(bits)
    times = np.array([np.datetime64("2000-01-01") + np.timedelta64(int(i), "D") for i in range(n)])
    data = np.array(bits, dtype="uint8")[list(perm)].reshape(n, 1, 1)
    da = xr.DataArray(data, dims=("time", "y", "x"), coords={"time": times[list(perm)]})
    rep.case("croo", {"bits": bits, "perm": list(perm)})
    got = int(da.hdc.algo.croo().values[0, 0])
    want = current_run(bits)
    if got != want:
        rep.violation("croo", "PixelAlgorithms.croo", {"bits": bits, "perm": list(perm)}, f"croo={got}, run ending at latest step = {want}")
    da2 = xr.DataArray(np.array(bits, dtype="uint8").reshape(1, 1, n), dims=("y", "x", "time"), coords={"time": times})
    lr = int(da2.hdc.algo.lroo().values[0, 0])
    if got > max(lr, 1):
        rep.violation("croo<=max(lroo,1)", "PixelAlgorithms.croo", {"bits": bits}, f"croo={got} > max(lroo={lr},1)")
    if lr != longest_run(bits):
        rep.violation("accessor.lroo", "PixelAlgorithms.lroo", {"bits_runs": _rle(bits), "n": n}, f"hdc.algo.lroo={lr}, want {longest_run(bits)}",
                      tags=["run>255"] if longest_run(bits) > 255 else [])


def run(tier, rng, rep):
    L = 16 if tier == "thorough" else 11
    rep.bound = f"lroo: all binary series up to length {L} (exhaustive) + structured/random series up to 1000 incl. runs > 255; croo: all series x all storage permutations up to length {5 if tier == 'quick' else 6}"
    rep.rule = "binary series enumerated exhaustively; distinct = distinct (check, series, permutation); non-trivial = every case (oracle evaluated)"
    for n in range(0, L + 1):
        for bits in itertools.product((0, 1), repeat=n):
            if n == 0:
                continue
            check_lroo(list(bits), rep)
    # values other than 0/1 in the uint8 data
    for _ in range(50 if tier == "quick" else 500):
        n = int(rng.integers(1, 40))
        bits = rng.choice([0, 1, 1, 1, 2, 255], size=n).tolist()
        check_lroo(bits, rep, "lroo.nonbinary")
    # structured: long runs
    for run_len in (2, 3, 127, 128, 254, 255, 256, 257, 300, 511, 512, 1000):
        for pre, post in ((0, 0), (3, 5), (1, 0)):
            bits = [0] * pre + [1] * run_len + [0] * post
            check_lroo(bits, rep, "lroo.long")
            bits2 = [1, 1, 1, 0] + bits + [0, 1, 1]
            check_lroo(bits2, rep, "lroo.long")
    for _ in range(40 if tier == "quick" else 400):
        n = int(rng.integers(200, 1000))
        p = rng.choice([0.5, 0.9, 0.99, 0.999])
        bits = (rng.random(n) < p).astype(int).tolist()
        check_lroo(bits, rep, "lroo.random")
    PL = 5 if tier == "quick" else 6
    for n in range(1, PL + 1):
        for bits in itertools.product((0, 1), repeat=n):
            for perm in itertools.permutations(range(n)):
                check_croo(list(bits), perm, rep)
    for run_len in (256, 300):
        bits = [0, 1] + [1] * run_len
        perm = list(rng.permutation(len(bits)))
        check_croo(bits, perm, rep)
    # accessor: several pixels, dims order
    for _ in range(5 if tier == "quick" else 40):
        n = int(rng.integers(2, 30))
        cube = (rng.random((n, 3, 2)) < 0.7).astype("uint8")
        times = np.array([np.datetime64("2000-01-01") + np.timedelta64(int(i), "D") for i in range(n)])
        da = xr.DataArray(cube, dims=("time", "y", "x"), coords={"time": times})
        lr = da.hdc.algo.lroo().values
        cr = da.hdc.algo.croo().values
        rep.case("accessor.cube", {"n": n, "cube_sum": int(cube.sum())})
        for r in range(3):
            for c in range(2):
                b = cube[:, r, c].tolist()
                if int(lr[r, c]) != longest_run(b) or int(cr[r, c]) != current_run(b):
                    rep.violation("accessor.cube", "PixelAlgorithms.lroo/croo", {"bits": b}, f"lroo={lr[r, c]} croo={cr[r, c]}")


def replay(v, rep):
    case = v.get("case", {})
    if "bits_runs" in case:
        check_lroo(_unrle(case["bits_runs"]), rep, v.get("check", "lroo"))
    elif "perm" in case:
        check_croo(case["bits"], case["perm"], rep)
    elif "bits" in case:
        check_croo(case["bits"], list(range(len(case["bits"]))), rep)

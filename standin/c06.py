"""C06 bounded stand-in: smoothers keep linear series, commute with integer offsets and (fixed-lambda / V-curve) time reversal."""
import numpy as np

from hdc.algo.ops import ws2dgu, ws2doptv, ws2doptvp, ws2doptvplc, ws2dpgu, ws2dwcv, ws2dwcvp
from hdc.algo.ops.ws2d import ws2d
from standin.select_ref import gcv_scores, irls10, vcurve
from standin.smooth_common import gappy_series

LL = np.arange(-1.0, 3.2, 0.2)
LLG = np.arange(-1.8, 4.2, 0.2)

# name -> (fn(y, nd) -> (out, lopt|None), p or None, selection kind, reversible)
VARIANTS = {
    "fixed": (lambda y, nd: (ws2dgu(y, 100.0, nd), 100.0), None, None, True),
    "asym": (lambda y, nd: (ws2dpgu(y, 100.0, nd, 0.9), 100.0), 0.9, None, True),
    "vcurve": (lambda y, nd: ws2doptv(y, nd, LL), None, "v", True),
    "vcurve-asym": (lambda y, nd: ws2doptvp(y, nd, 0.9, LL), 0.9, "v", True),
    "vcurve-lc": (lambda y, nd: ws2doptvplc(y.astype("int16"), nd, 0.9, 0.3), 0.9, "vlc", True),
    "gcv": (lambda y, nd: ws2dwcv(y, nd, LLG, False), None, "g", False),
    "gcv-robust": (lambda y, nd: ws2dwcv(y, nd, LLG, True), None, "gr", False),
    "gcv-asym": (lambda y, nd: ws2dwcvp(y, nd, 0.9, LLG, False), 0.9, "g", False),
    "gcv-asym-robust": (lambda y, nd: ws2dwcvp(y, nd, 0.9, LLG, True), 0.9, "gr", False),
}


def unrounded(y0, w, lam, p):
    return ws2d(y0, lam, w) if p is None else irls10(y0, lam, w, p)[0]


def near_tie(z):
    f = z - np.floor(z)
    return np.abs(f - 0.5) < 1e-6


def criterion_tied(kind, y0, w, p, la, lb):
    """is the selection criterion (numerically) tied between the two selected lambdas?"""
    if kind in ("gr",):
        return True      # robust selection re-weights between iterations: lambda ties are not decidable here -> not flagged
    if kind in ("v", "vlc"):
        grid = LL if kind == "v" else np.arange(0, 3.2, 0.2)
        v, lamids, fits, pens = vcurve(y0, w, grid, p)
        if not np.all(np.isfinite(v)):
            return True      # perfect fit / zero roughness on the grid (log 0): the criterion is degenerate, outside the claim
        scale = max(1.0, float((w * y0 ** 2).sum()))
        if np.any(np.exp(fits) <= 1e-18 * scale) or np.any(np.exp(pens) <= 1e-18 * scale):
            # the valid cells lie exactly on a line (e.g. two valid cells): the exact residual / roughness is 0 and its logarithm is
            # -inf for every lambda; what the kernel sees is round-off noise of size 1e-25 -- the same degenerate criterion
            return True
        ia, ib = (int(np.argmin(np.abs(10 ** lamids - x))) for x in (la, lb))
        return abs(v[ia] - v[ib]) <= 1e-7 * max(1.0, abs(v[ia]))
    sc = gcv_scores(y0, w, LLG)
    ia, ib = (int(np.argmin(np.abs(10 ** LLG - x))) for x in (la, lb))
    return abs(sc[ia] - sc[ib]) <= 1e-7 * max(1e-300, abs(sc[ia]))


def compare(name, what, case, a, b, shift, y0, w, lam, p, rep):
    """a + shift must equal b except for 1 unit at rounding ties of the unrounded curve"""
    d = np.flatnonzero(a.astype(int) + shift != b.astype(int))
    if len(d) == 0:
        return
    z = unrounded(y0, w, lam, p)
    if np.abs(z).max() > 32700 or np.abs(z + shift).max() > 32700:
        return      # the fitted curve leaves the int16 range (edge-gap extrapolation): outside the claim
    bad = [int(i) for i in d if abs(int(a[i]) + shift - int(b[i])) > 1 or not near_tie(z)[i]]
    if bad:
        rep.violation(f"{name}.{what}", name, case, f"{what}: cells {bad[:6]} differ beyond the rounding-tie rule (e.g. {int(a[bad[0]]) + shift} vs {int(b[bad[0]])})",
                      tags=["asymmetric"] if p is not None else [])


def check(name, y, miss, rep):
    fn, p, kind, reversible = VARIANTS[name]
    nd = -3000.0
    need = 5 if kind in ("g", "gr") else 2
    if (~miss).sum() < need:
        return
    w = (~miss).astype("float64")
    y0 = np.where(miss, 0.0, y)
    yy = np.where(miss, nd, y)
    base_case = {"variant": name, "n": len(y), "y": yy.tolist() if len(y) <= 40 else None}
    out, lopt = fn(yy, nd)
    lam = float(lopt)
    # ---- offset
    for c in (7, -250, 1000, 5000, 8000):
        if np.abs(y[~miss] + c).max() > 10000 or (y[~miss] + c).min() < -2900:
            continue
        case = dict(base_case, c=c)
        rep.case(name + ".offset", case)
        y2 = np.where(miss, nd + c, y + c)
        out2, lopt2 = fn(y2, nd + c)
        if float(lopt2) != lam:
            if not criterion_tied(kind, y0, w, p, lam, float(lopt2)):
                rep.violation(f"{name}.offset.lambda", name, case, f"lambda changes under an offset of {c}: {lam} -> {float(lopt2)}", tags=["asymmetric"] if p is not None else [])
            continue
        compare(name, "offset", case, out, out2, c, y0, w, lam, p, rep)
    # ---- time reversal (fixed-lambda and V-curve variants)
    if reversible:
        case = dict(base_case)
        rep.case(name + ".reversal", case)
        outr, loptr = fn(yy[::-1].copy(), nd)
        if float(loptr) != lam:
            if not criterion_tied(kind, y0, w, p, lam, float(loptr)):
                rep.violation(f"{name}.reversal.lambda", name, case, f"lambda changes under time reversal: {lam} -> {float(loptr)}", tags=["asymmetric"] if p is not None else [])
        else:
            compare(name, "reversal", case, out, outr[::-1], 0, y0, w, lam, p, rep)


def dense_case(name, lam, yy, c, rep):
    nd = -3000.0
    p = None if name == "fixed" else 0.9
    fn = (lambda y, d: ws2dgu(y, lam, d)) if p is None else (lambda y, d: ws2dpgu(y, lam, d, p))
    miss = yy == nd
    y = np.where(miss, 0.0, yy)
    w = (~miss).astype("float64")
    case = {"variant": name, "n": len(yy), "y": yy.tolist(), "c": c, "dense_lambda": lam}
    rep.case(name + ".offset", case)
    out = fn(yy, nd)
    out2 = fn(np.where(miss, nd + c, yy + c), nd + c)
    compare(name, "offset", case, out, out2, c, y, w, lam, p, rep)


def check_offset_dense(rng, rep, count):
    """many seasonal series x the two fixed-lambda variants x large offsets: an iteration whose stop rule depends on the signal
    magnitude shows on well under 1 % of the series, so this block is wide and cheap (two kernel calls per case)"""
    for _ in range(count):
        n = int(rng.choice([36, 48, 60, 90, 108]))
        t = np.arange(n)
        y = np.rint(float(rng.integers(300, 1500)) + float(rng.integers(100, 500)) * np.sin(2 * np.pi * t / 36 + rng.uniform(0, 6.28))
                    + rng.integers(10, 80) * rng.uniform(-1, 1, n))
        if rng.random() < 0.5:
            y[rng.choice(n, size=int(rng.integers(1, 5)), replace=False)] = -3000.0
        for name in ("fixed", "asym"):
            for lam in (10.0, 100.0):
                for c in (8000, 5000):
                    if np.abs(y[y != -3000.0] + c).max() <= 10000:
                        dense_case(name, lam, y, c, rep)


def check_endspike(rng, rep, count):
    """smooth seasonal series with one large spike on the first or the last observation: a selection criterion that loses (or double
    counts) a term at one end of the series picks a different lambda for the series and for its mirror image only on such inputs"""
    rng = np.random.default_rng(606 + int(rng.bit_generator.seed_seq.entropy or 0) % 1000 if hasattr(rng.bit_generator, "seed_seq") else 606)   # own stream: the blocks below keep theirs
    for k in range(count):
        n = int(rng.integers(12, 60))
        t = np.arange(n)
        y = np.rint(3000 + 800 * np.sin(t / 4.0 + rng.uniform(0, 6.28)) + rng.normal(0, 40, n))
        miss = rng.random(n) < 0.15
        end = -1 if k % 2 == 0 else 0
        miss[end] = False
        y[end] += float(rng.choice([1500.0, -1500.0, 3000.0]))
        for name in ("vcurve", "vcurve-asym", "vcurve-lc", "fixed", "asym"):
            check(name, y, miss, rep)


def check_linear(name, a, b, n, miss, rep):
    fn, p, kind, _ = VARIANTS[name]
    need = 5 if kind in ("g", "gr") else 2
    if (~miss).sum() < need:
        return
    line = a + b * np.arange(n)
    yy = np.where(miss, -3000.0, line).astype("float64")
    case = {"variant": name, "a": a, "b": b, "n": n, "missing": np.flatnonzero(miss).tolist()}
    rep.case(name + ".linear", case)
    out, lopt = fn(yy, -3000.0)
    if np.abs(line).max() > 32700:
        return
    if not np.array_equal(out.astype(int), line.astype(int)):
        d = np.flatnonzero(out.astype(int) != line.astype(int))
        edge = (~miss).cumsum() == 0
        edge |= ((~miss)[::-1].cumsum() == 0)[::-1]
        rep.violation(f"{name}.linear", name, case, f"exactly linear series not returned unchanged at cells {d.tolist()[:8]} (got {out[d][:4].tolist()}, line {line[d][:4].tolist()})",
                      tags=(["asymmetric"] if p is not None else []) + (["robust"] if kind == "gr" else []))


def run(tier, rng, rep):
    rep.bound = "series 4..90 (200 thorough), |values| + |c| <= 10000, gap patterns, integer offsets 7/-250/1000/5000/8000, all eight variants; 1500 (12000 thorough) seasonal series x fixed-lambda variants x offsets 5000/8000 (+ robust), exactly linear series with gaps; 60 (600 thorough) seasonal series with a spike on the first / last observation x V-curve and fixed-lambda variants"
    rep.rule = "random series (seeded) x variants x transformations; ties decided by recomputing the unrounded curve / the selection criterion; distinct = distinct (variant, transformation, series)"
    sizes = [4, 6, 12, 30, 90] + ([200] if tier == "thorough" else [])
    check_offset_dense(rng, rep, 1500 if tier == "quick" else 12000)
    check_endspike(rng, rep, 60 if tier == "quick" else 600)
    for n in sizes:
        for kind in ("none", "random", "runs", "leading", "trailing"):
            for _ in range(1 if tier == "quick" else 4):
                y, miss = gappy_series(rng, n, kind, 0, 9000)
                for name in VARIANTS:
                    check(name, y, miss, rep)
                if kind in ("random", "runs"):
                    y, miss = gappy_series(rng, n, kind, -2500, 2500)     # signed data: the fitted curve is negative at some gaps
                    for name in VARIANTS:
                        check(name, y, miss, rep)
        for (a, b) in ((100, 8), (9000, -13), (0, 0), (5, 1)):
            if abs(a + b * (n - 1)) > 10000 or a + b * (n - 1) < -2900:
                continue
            for gaps in ("none", "random", "leading"):
                _, miss = gappy_series(rng, n, gaps, 0, 1)
                for name in VARIANTS:
                    check_linear(name, a, b, n, miss, rep)


def replay(v, rep):
    c = v.get("case", {})
    if "dense_lambda" in c:
        dense_case(c["variant"], c["dense_lambda"], np.array(c["y"], dtype="float64"), c["c"], rep)
    elif "a" in c:
        miss = np.zeros(c["n"], bool); miss[c["missing"]] = True
        check_linear(c["variant"], c["a"], c["b"], c["n"], miss, rep)
    elif c.get("y") is not None:
        yy = np.array(c["y"], dtype="float64"); miss = yy == -3000.0
        check(c["variant"], np.where(miss, 0.0, yy), miss, rep)

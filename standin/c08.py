"""C08 bounded stand-in: SPI ordering, saturation, nodata handling, no exceptions."""
import numpy as np
import xarray as xr

import hdc.algo  # noqa: F401
from hdc.algo.ops.stats import gammastd, gammastd_grp, gammastd_yxt

ND = -9999


def pixels(rng, t):
    base = rng.gamma(rng.choice([0.3, 2.0, 50.0]), rng.choice([1.0, 30.0]), t)
    yield "ordinary", base
    yield "int-ties", np.round(base)
    z = base.copy(); z[rng.random(t) < 0.5] = 0; yield "half-zeros", z
    z = base.copy(); z[rng.random(t) < 0.95] = 0; yield "mostly-zeros", z
    yield "all-zero", np.zeros(t)
    yield "all-negative", -base - 1
    yield "all-nodata", np.full(t, float(ND))
    yield "constant", np.full(t, 7.0)
    z = base.copy(); z[rng.random(t) < 0.3] = ND; yield "gappy", z
    z = base.copy(); z[rng.random(t) < 0.2] = -3.0; yield "some-negative", z
    z = base.copy(); z[-1] = z.max() * 1e6; yield "huge-outlier", z
    z = base.copy(); z[rng.random(t) < 0.3] = 0; z[-1] = base.max() * 1.5; z[-2] = base.max() * 1.2; yield "zeros+wet-tail", z
    z = np.sort(base.copy()); z[: max(1, t // 3)] = 0; yield "zeros+sorted", z
    z = base.copy() + 1; z[-1] = 1e-300; yield "tiny-outlier", z
    z = 1000 + rng.normal(0, 0.1, t); z[-1] = 1.0; yield "low-variance+low", z      # shape ~ 1e8
    z = 1000 + rng.normal(0, 0.1, t); z[-1] = 2000.0; yield "low-variance+high", z


def check_pixel(kind, x, got, cal, rep, name):
    """got: int16 result for this pixel"""
    case = {"kind": kind, "x": x.tolist() if len(x) <= 40 else None, "cal": list(cal), "t": len(x)}
    rep.case(name, case)
    valid = (x != ND) & (x >= 0)
    bad = (~valid) & (got != ND)
    if bad.any():
        rep.violation(name + ".nodata", "gammastd", case, f"nodata/negative cell {int(np.flatnonzero(bad)[0])} got {int(got[bad][0])}")
        return
    fit_vals = x[cal[0]:cal[1]]
    nz = int(((x != ND) & (x == 0)).sum()); nv = int(valid.sum())
    unfit = nv == 0 or not (fit_vals > 0).any() or (nv > 0 and nz / nv > 0.9)
    if unfit:
        if (got != ND).any():
            rep.violation(name + ".unfit", "gammastd", case, f"unfittable pixel not nodata everywhere: {got.tolist()[:10]}")
        return
    idx = np.flatnonzero(valid)
    if (got[idx] == ND).all():
        return     # fit failed for another reason (e.g. one distinct positive value): nodata everywhere is allowed
    xs, gs = x[idx], got[idx].astype(int)
    order = np.argsort(xs, kind="stable")
    xs, gs = xs[order], gs[order]
    for a in range(len(xs) - 1):
        if xs[a] == xs[a + 1] and gs[a] != gs[a + 1]:
            rep.violation(name + ".equal", "gammastd", case, f"equal observations {xs[a]} got {gs[a]} and {gs[a + 1]}")
            return
        if gs[a] > gs[a + 1]:
            rep.violation(name + ".order", "gammastd", case, f"x={xs[a]} -> {gs[a]} but wetter x={xs[a + 1]} -> {gs[a + 1]} (wrap / arbitrary value instead of saturation?)",
                          tags=["extreme"] if abs(gs[a]) > 8000 or abs(gs[a + 1]) > 8000 else [])
            return
    # saturation: compare with the float result of the interpreted source
    ref = gammastd.py_func(x.astype("float64"), ND, cal[0], cal[1])
    for i in idx:
        v = ref[i] * 1000
        if v == ND * 1000:
            continue
        want = 32767 if v > 32767 else (-32768 if v < -32768 else None)
        if want is not None and int(got[i]) != want:
            rep.violation(name + ".saturate", "gammastd_yxt", case, f"cell {int(i)}: SPI*1000 = {v} must saturate to {want}, got {int(got[i])}", tags=["extreme"])
            return


def run(tier, rng, rep):
    rep.bound = "cubes of 14 pixel kinds (ordinary, ties, zeros, all-zero/negative/nodata, constant, gaps, outliers 1e6 / 1e-300, shape ~1e8) x lengths 3..60, full and partial calibration windows, grouped kernel, accessor"
    rep.rule = "per pixel: monotonicity over all pairs of valid cells, equality, nodata rules, saturation vs the float result; distinct = distinct (check, kind, series)"
    for t in ([3, 8, 24, 60, 240] if tier == "quick" else [3, 5, 8, 24, 60, 240, 600]):
        for rep_i in range(2 if tier == "quick" else 8):
            kinds, series = zip(*list(pixels(rng, t)))
            cube = np.array(series).reshape(len(series), 1, t)
            for cal in ((0, t), (0, max(2, t // 2)), (t // 3, t)):
                try:
                    res = gammastd_yxt(cube, ND, cal[0], cal[1])
                except Exception as exc:      # one bad pixel must not abort the array
                    rep.case("cube.noraise", {"t": t, "cal": list(cal)})
                    rep.violation("cube.noraise", "gammastd_yxt", {"t": t, "cal": list(cal), "kinds": list(kinds)}, f"{type(exc).__name__}: {exc}")
                    # find the offending pixel
                    for k, s in zip(kinds, series):
                        try:
                            gammastd_yxt(np.array(s).reshape(1, 1, t), ND, cal[0], cal[1])
                        except Exception as exc2:
                            rep.violation("pixel.noraise", "gammastd", {"kind": k, "x": np.array(s).tolist() if t <= 40 else None, "cal": list(cal)}, f"{type(exc2).__name__}")
                            break
                    continue
                for k, s, g in zip(kinds, series, res[:, 0, :]):
                    check_pixel(k, np.array(s), g, cal, rep, "spi")
            # grouped kernel (int16 and float32 inputs), one and two groups
            for k, s in zip(kinds, series):
                xi = np.clip(np.round(np.array(s)), -32000, 32000).astype("int16")
                for ng in (1, 2):
                    if t < 2 * ng + 1:
                        continue
                    g = (np.arange(t) % ng).astype("int16")
                    cal = np.array([[0, (g == i).sum()] for i in range(ng)], dtype="int64")
                    rep.case("grp.noraise", {"kind": k, "t": t, "ng": ng})
                    try:
                        r = gammastd_grp(xi, g, ng, ND, cal)
                    except Exception as exc:
                        rep.violation("grp.noraise", "gammastd_grp", {"kind": k, "x": xi.tolist() if t <= 40 else None, "ng": ng}, f"{type(exc).__name__}: {exc}")
                        continue
                    for i in range(ng):
                        check_pixel(k, xi[g == i].astype("float64"), r[g == i], (0, int((g == i).sum())), rep, "spi.grp")
    # accessor: mixed cube
    t = 24
    kinds, series = zip(*list(pixels(rng, t)))
    cube = np.round(np.clip(np.array(series), -30000, 30000)).astype("int16").reshape(len(series), 1, t)
    da = xr.DataArray(cube, dims=("y", "x", "time"), attrs={"nodata": ND})
    da["time"] = np.array([np.datetime64("2001-01-01") + np.timedelta64(int(k) * 10, "D") for k in range(t)])
    rep.case("accessor.spi", {"t": t})
    try:
        res = da.hdc.algo.spi().values
        for k, s, g in zip(kinds, cube[:, 0, :], res[:, 0, :]):
            check_pixel(k, s.astype("float64"), g, (0, t), rep, "accessor.spi")
    except Exception as exc:
        rep.violation("accessor.spi", "PixelAlgorithms.spi", {"kinds": list(kinds)}, f"{type(exc).__name__}: {exc}")


def replay(v, rep):
    c = v.get("case", {})
    if c.get("x") is None:
        rep.notes.append("re-run with the same VERIF_SEED")
        return
    x = np.array(c["x"], dtype="float64")
    cal = c.get("cal", [0, len(x)])
    try:
        res = gammastd_yxt(x.reshape(1, 1, -1), ND, cal[0], cal[1])
        check_pixel(c.get("kind", "replay"), x, res[0, 0], cal, rep, "spi")
    except Exception as exc:
        rep.case("pixel.noraise", c)
        rep.violation("pixel.noraise", "gammastd", c, f"{type(exc).__name__}")

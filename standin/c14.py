"""C14 bounded stand-in: every compiled kernel under NUMBA_BOUNDSCHECK=1 on boundary-sized and random
in-contract inputs; each gufunc is called twice on differently pre-filled output buffers (a cell that is
not written shows up as a difference)."""
import os

os.environ["NUMBA_BOUNDSCHECK"] = "1"

import numpy as np  # noqa: E402

from hdc.algo.ops import (autocorr, autocorr_1d, autocorr_tyx, lroo, tinterpolate, ws2dgu, ws2doptv, ws2doptvp, ws2doptvplc,  # noqa: E402
                          ws2dpgu, ws2dwcv, ws2dwcvp)
from hdc.algo.ops.stats import (_mann_kendall_trend_gu, _mann_kendall_trend_gu_nd, gammastd_grp, gammastd_yxt, mann_kendall_trend_1d,  # noqa: E402
                                mann_kendall_trend_yxt, mean_grp, mk_sens_slope, rolling_sum)
from hdc.algo.ops.ws2d import ws2d  # noqa: E402
from hdc.algo.ops.ws2doptvp import _ws2doptvp  # noqa: E402
from hdc.algo.ops.ws2doptvplc import ws2doptvplc_tyx  # noqa: E402
from hdc.algo.ops.ws2dwcvp import _ws2dwcvp  # noqa: E402
from hdc.algo.ops.zonal import do_mean  # noqa: E402

ND = -3000


def guarded(rep, name, case, fn):
    rep.case(name, case)
    try:
        return fn()
    except IndexError as exc:
        rep.violation(name, name.split(".")[0], case, f"IndexError under NUMBA_BOUNDSCHECK=1: {exc}", tags=["index"])
    except ZeroDivisionError:
        return None     # arithmetic, not an index matter (C08)
    return None


def twice(rep, name, case, call, outs):
    """call(out buffers...) with two different pre-fills; results must agree (every element written)"""
    res = []
    for fill in (0, 1):
        bufs = [np.full(shape, (7 if fill == 0 else -5), dtype=dt) for shape, dt in outs]
        r = guarded(rep, name, case, lambda: call(*bufs))
        if r is None and len(rep.violations) and rep.violations[-1]["check"] == name:
            return
        res.append([b.copy() for b in bufs])
    if len(res) == 2:
        for a, b in zip(*res):
            if not np.array_equal(a, b, equal_nan=True):
                rep.violation(name + ".written", name.split(".")[0], case, "output differs between two pre-filled buffers: some element is not written", tags=["written"])
                return


def series(rng, n, valid):
    y = rng.integers(0, 9000, n).astype("float64")
    idx = rng.permutation(n)[: n - valid]
    y[idx] = ND
    return y


def run(tier, rng, rep):
    rep.bound = "every kernel, lengths 2..6 and 30/200, valid counts 0/1/2/all, srange lengths 2/3/16, single pixel/group/zone, window == length; NUMBA_BOUNDSCHECK=1"
    rep.rule = "boundary-sized inputs enumerated + random in-contract inputs; distinct = distinct (kernel, shape, parameters, data)"
    sizes = [2, 3, 4, 5, 6, 30] + ([200] if tier == "thorough" else [])
    for n in sizes:
        for valid in sorted({0, 1, 2, min(5, n), n}):
            if valid > n:
                continue
            y = series(rng, n, valid)
            w = (y != ND).astype("float64")
            c = {"n": n, "valid": valid}
            if valid >= 2:
                guarded(rep, "ws2d", c, lambda: ws2d(np.where(w > 0, y, 0.0), 10.0, w))
            twice(rep, "ws2dgu", c, lambda o: ws2dgu(y, 10.0, ND, out=o), [((n,), "int16")])
            twice(rep, "ws2dpgu", c, lambda o: ws2dpgu(y, 10.0, ND, 0.9, out=o), [((n,), "int16")])
            for nl in (2, 3, 16):
                llas = np.linspace(-1, 2, nl)
                cc = dict(c, nl=nl)
                twice(rep, "ws2doptv", cc, lambda o, l: ws2doptv(y, ND, llas, out=(o, l)), [((n,), "int16"), ((), "float64")])
                twice(rep, "ws2doptvp", cc, lambda o, l: ws2doptvp(y, ND, 0.9, llas, out=(o, l)), [((n,), "int16"), ((), "float64")])
                for robust in (False, True):
                    cr = dict(cc, robust=robust)
                    twice(rep, "ws2dwcv", cr, lambda o, l: ws2dwcv(y, ND, llas, robust, out=(o, l)), [((n,), "int16"), ((), "float64")])
                    twice(rep, "ws2dwcvp", cr, lambda o, l: ws2dwcvp(y, ND, 0.9, llas, robust, out=(o, l)), [((n,), "int16"), ((), "float64")])
                    if valid >= 5:
                        guarded(rep, "_ws2dwcvp", cr, lambda: _ws2dwcvp(np.where(w > 0, y, 0.0), w, 0.9, llas, robust))
                if valid >= 2:
                    guarded(rep, "_ws2doptvp", cc, lambda: _ws2doptvp(np.where(w > 0, y, 0.0), w, 0.9, llas))
            for lc in (0.7, 0.2, np.nan):
                twice(rep, "ws2doptvplc", dict(c, lc=str(lc)), lambda o, l: ws2doptvplc(y.astype("int16"), ND, 0.9, lc, out=(o, l)), [((n,), "int16"), ((), "float64")])
            cube = np.stack([y.astype("int16")] * 2, axis=1).reshape(n, 2, 1)
            guarded(rep, "ws2doptvplc_tyx", c, lambda: ws2doptvplc_tyx(cube, 0.9, ND))
            yi = y.astype("int16")
            guarded(rep, "autocorr_1d", c, lambda: autocorr_1d(yi, ND))
            yf = y.copy(); yf[y == ND] = np.nan
            guarded(rep, "autocorr_1d.float", c, lambda: autocorr_1d(yf))
            guarded(rep, "autocorr", c, lambda: autocorr(yi.reshape(1, 1, n), ND))
            guarded(rep, "autocorr_tyx", c, lambda: autocorr_tyx(yi.reshape(n, 1, 1), ND))
            # stats
            x = np.where(y == ND, -9999, y % 50).astype("float32")
            for ws in sorted({1, 2, n}):
                twice(rep, "rolling_sum", dict(c, ws=ws), lambda o: rolling_sum(x, ws, -9999, out=o), [((n,), "float32")])
            for k in sorted({1, 2, n}):
                g = (np.arange(n) % k).astype("int16")
                twice(rep, "mean_grp", dict(c, k=k), lambda o: mean_grp(x, g, k, -9999, out=o), [((n,), "float32")])
                counts = np.bincount(g, minlength=k)
                cal = np.stack([np.zeros(k), counts], axis=1).astype("int16")
                twice(rep, "gammastd_grp", dict(c, k=k), lambda o: gammastd_grp(x, g, k, -9999, cal, out=o), [((n,), "int16")])
            guarded(rep, "gammastd_yxt", c, lambda: gammastd_yxt(x.reshape(1, 1, n), -9999))
            guarded(rep, "gammastd_yxt.window", c, lambda: gammastd_yxt(x.reshape(1, 1, n), -9999, 0, n))
            xi = (y % 50).astype("int16")
            guarded(rep, "mk_sens_slope", c, lambda: mk_sens_slope(xi.astype("float64")))
            guarded(rep, "mann_kendall_trend_1d", c, lambda: mann_kendall_trend_1d(xi.astype("float64")))
            guarded(rep, "mann_kendall_trend_yxt", c, lambda: mann_kendall_trend_yxt(xi.astype("float64").reshape(1, 1, n)))
            twice(rep, "_mann_kendall_trend_gu", c, lambda a, b, cc_, d: _mann_kendall_trend_gu(xi, out=(a, b, cc_, d)),
                  [((), "float32"), ((), "float32"), ((), "float32"), ((), "int8")])
            xnd = xi.copy(); xnd[y == ND] = -9999
            twice(rep, "_mann_kendall_trend_gu_nd", c, lambda a, b, cc_, d: _mann_kendall_trend_gu_nd(xnd, -9999, out=(a, b, cc_, d)),
                  [((), "float32"), ((), "float32"), ((), "float32"), ((), "int8")])
            bits = (y % 2).astype("uint8")
            twice(rep, "lroo", c, lambda o: lroo(bits, out=o), [((), "int32")])
    # zonal
    for (t, nr, nc, nz) in ((1, 1, 1, 1), (2, 3, 4, 1), (1, 5, 5, 7), (2, 2, 2, 1000)):
        px = rng.integers(0, 100, (t, nr, nc)).astype("int16")
        zones = rng.integers(0, nz, (nr, nc)).astype("int32")
        guarded(rep, "do_mean", {"shape": [t, nr, nc], "nz": nz}, lambda: do_mean(px, zones, nz, -9999, 255))
    # tinterpolate: template length >= 4, as many marks as observations
    for nobs, m in ((2, 4), (2, 9), (5, 41), (3, 23)):
        template = np.zeros(m); pos = np.sort(rng.choice(m, nobs, replace=False)); template[pos] = 1
        labels = (np.arange(m) // 10).astype("int32")
        nl = len(np.unique(labels))
        xo = rng.integers(0, 9000, nobs).astype("int16")
        twice(rep, "tinterpolate", {"nobs": nobs, "m": m}, lambda o: tinterpolate(xo, template, labels, np.zeros(nl, dtype="u1"), out=o), [((nl,), "int16")])


def replay(v, rep):
    rep.notes.append("boundary inputs are enumerated deterministically: re-run the stand-in (same VERIF_SEED) to reproduce")

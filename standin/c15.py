"""C15 bounded stand-in: autocorr against an independent numpy reference (mean-filled Pearson)."""
import numpy as np
import xarray as xr

import hdc.algo  # noqa: F401
from hdc.algo.ops import autocorr, autocorr_1d, autocorr_tyx


def reference(xf):
    """xf: float array with NaN for missing"""
    X, Y = xf[:-1].copy(), xf[1:].copy()
    okx, oky = ~np.isnan(X), ~np.isnan(Y)
    if not (okx & oky).any():
        return 0.0
    X[~okx] = X[okx].mean()
    Y[~oky] = Y[oky].mean()
    vx, vy = X.var(), Y.var()
    if vx < 1e-8 or vy < 1e-8:
        return 0.0
    return float(((X - X.mean()) * (Y - Y.mean())).mean() / np.sqrt(vx * vy))


def series(rng, n, kind):
    x = rng.integers(-3000, 10000, n).astype("int16")
    x = (x.astype(float) * rng.choice([1, 0.01])).astype("int16") if rng.random() < 0.3 else x
    miss = np.zeros(n, bool)
    if kind == "random":
        miss = rng.random(n) < rng.choice([0.05, 0.3, 0.7])
    elif kind == "outage":
        a = int(rng.integers(0, n)); b = min(n, a + int(n * rng.choice([0.2, 0.5, 0.9])))
        miss[a:b] = True
    elif kind == "leading":
        miss[: int(n * rng.choice([0.1, 0.5]))] = True
    elif kind == "trailing":
        miss[n - int(n * rng.choice([0.1, 0.5])):] = True
    elif kind == "alternating":
        miss[::2] = True
    return x, miss


def check(x, miss, rep, check="autocorr_1d"):
    nodata = -3000 if not (x[~miss] == -3000).any() else -32768
    xi = x.copy(); xi[miss] = nodata
    xf = x.astype("float64"); xf[miss] = np.nan
    case = {"n": int(len(x)), "x": x.tolist() if len(x) <= 40 else None, "missing": np.flatnonzero(miss).tolist() if len(x) <= 40 else int(miss.sum())}
    rep.case(check, case)
    want = reference(xf)
    gi = float(autocorr_1d(xi, nodata))
    gf = float(autocorr_1d(xf))
    for nm, g in (("int/nodata", gi), ("float/NaN", gf)):
        if not (-1.0 <= g <= 1.0):
            rep.violation(check + ".range", "autocorr_1d", case, f"{nm}: {g} outside [-1, 1]")
        if abs(g - want) > 1e-6 * max(1.0, abs(want)) + 1e-9:
            rep.violation(check, "autocorr_1d_int" if nm.startswith("int") else "autocorr_1d_float", case, f"{nm}: got {g}, mean-filled Pearson {want}")
    if abs(gi - gf) > 1e-9:
        rep.violation(check + ".encodings", "autocorr_1d", case, f"int/nodata {gi} vs float/NaN {gf}")
    # positive affine rescaling of the valid cells (kept inside int16)
    a, b = 2, 17
    if np.abs(x[~miss].astype(int) * a + b).max(initial=0) < 32000:
        xa = (x.astype(int) * a + b).astype("int16"); xa[miss] = -32768
        ga = float(autocorr_1d(xa, -32768))
        if abs(ga - gi) > 1e-9:
            rep.violation(check + ".affine", "autocorr_1d_int", case, f"{gi} vs {ga} after x -> 2x+17")
    return gi


def run(tier, rng, rep):
    rep.bound = "series of length 3..900, int16/nodata and float/NaN encodings, gap patterns random/outage(<=90%)/leading/trailing/alternating/none, (y,x,t) and (t,y,x) layouts, accessor numpy+dask"
    rep.rule = "random series (seeded) per (length, gap pattern); distinct = distinct (check, series, mask)"
    sizes = [3, 4, 5, 8, 18, 50, 200, 900]
    for n in sizes:
        for kind in ("none", "random", "outage", "leading", "trailing", "alternating"):
            for _ in range(3 if tier == "quick" else 30):
                x, miss = series(rng, n, kind)
                check(x, miss, rep)
    # the design-time witness and degenerate inputs
    x = np.array([1, 2, 3, 4, 5, 6, 7, 8] + [0] * 6 + [100, -50, 300, -200], dtype="int16")
    miss = np.zeros(len(x), bool); miss[8:14] = True
    check(x, miss, rep, "autocorr_1d.witness")
    for x, miss in ((np.full(10, 7, "int16"), np.zeros(10, bool)), (np.arange(10).astype("int16"), np.ones(10, bool)),
                    (np.arange(6).astype("int16"), np.array([0, 1, 0, 1, 0, 1], bool))):
        check(x, miss, rep, "autocorr_1d.degenerate")
    # layouts and accessor
    for _ in range(4 if tier == "quick" else 20):
        t, r, c = int(rng.integers(3, 40)), 3, 2
        cube = rng.integers(0, 5000, (r, c, t)).astype("int16")
        cube[rng.random(cube.shape) < 0.2] = -3000
        rep.case("layouts", {"shape": [r, c, t]})
        a = autocorr(cube, -3000)
        b = autocorr_tyx(np.ascontiguousarray(np.moveaxis(cube, 2, 0)), -3000)
        if a.dtype != np.float32 or not np.array_equal(a, b):
            rep.violation("layouts", "autocorr/autocorr_tyx", {"shape": [r, c, t]}, f"(y,x,t) {a.tolist()} vs (t,y,x) {b.tolist()}")
        for i in range(r):
            for j in range(c):
                w = float(autocorr_1d(cube[i, j, :], -3000))
                if abs(float(a[i, j]) - np.float32(w)) > 1e-7:
                    rep.violation("layouts.pixel", "autocorr", {"shape": [r, c, t], "pixel": [i, j]}, f"{a[i, j]} vs per-pixel {w}")
        da = xr.DataArray(cube, dims=("y", "x", "time"), attrs={"nodata": -3000})
        da["time"] = np.array([np.datetime64("2001-01-01") + np.timedelta64(int(k), "D") for k in range(t)])
        for lay in (da, da.transpose("time", "y", "x")):
            for lazy in (False, True):
                v = (lay.chunk({"y": 1}) if lazy else lay).hdc.algo.autocorr()
                vals = v.compute().values if lazy else v.values
                if not np.allclose(vals, a, atol=1e-7) or vals.dtype != np.float32:
                    rep.violation("accessor.autocorr", "PixelAlgorithms.autocorr", {"shape": [r, c, t], "dims": list(lay.dims), "dask": lazy}, "differs from kernel")


def replay(v, rep):
    c = v.get("case", {})
    if c.get("x") is None:
        rep.notes.append("long series: re-run with the same VERIF_SEED")
        return
    x = np.array(c["x"], dtype="int16"); miss = np.zeros(len(x), bool); miss[c["missing"]] = True
    check(x, miss, rep, v.get("check", "autocorr_1d").split(".")[0])

"""C16 bounded stand-in: zonal mean/count against an exact integer oracle."""
import numpy as np
import xarray as xr

import hdc.algo  # noqa: F401
from hdc.algo.ops.zonal import do_mean


def oracle(pixels, zones, nz, nodata, znd):
    t = pixels.shape[0]
    out = np.full((t, nz, 2), np.nan)
    for ti in range(t):
        for k in range(nz):
            m = (zones == k) & (zones != znd) & (pixels[ti] != nodata)
            n = int(m.sum())
            out[ti, k, 1] = n
            if n:
                vals = pixels[ti][m]
                out[ti, k, 0] = float(np.sum(vals.astype(object))) / n if vals.dtype.kind in "iu" else float(np.sum(vals.astype("float64"))) / n
    return out


def compare(got, want, dtype, rep, check, case):
    eps = np.finfo(dtype).eps
    for idx in np.ndindex(want.shape[:2]):
        wm, wc = want[idx][0], want[idx][1]
        gm, gc = float(got[idx][0]), float(got[idx][1])
        # count: exact up to the representation of the requested dtype
        if abs(gc - wc) > max(0.0, abs(wc) * eps):
            rep.violation(check, "do_mean", case, f"count at {idx}: got {gc}, want {wc}", tags=["big-zone"] if wc > 2 ** 24 else [])
            return False
        if np.isnan(wm) != np.isnan(gm) or (not np.isnan(wm) and abs(gm - wm) > 2 * eps * max(1.0, abs(wm))):
            rep.violation(check, "do_mean", case, f"mean at {idx}: got {gm}, want {wm}", tags=["big-zone"] if wc > 2 ** 24 else [])
            return False
    return True


def run(tier, rng, rep):
    big = 5000 if tier == "thorough" else 4100
    rep.bound = f"random rasters up to 40x40x4 with 1..1000 zones incl. empty ones; one {big}x{big} single-zone raster (> 2^24 pixels); float32/float64 outputs; pixel permutations; numpy and dask inputs via the accessor"
    rep.rule = "random cubes seeded by VERIF_SEED; distinct = distinct (check, shape, zones, dtype, seed draw)"
    for i in range(60 if tier == "quick" else 600):
        t, nr, nc = int(rng.integers(1, 4)), int(rng.integers(1, 40)), int(rng.integers(1, 40))
        nz = int(rng.choice([1, 2, 5, 37, 1000]))
        px = rng.integers(-300, 3000, (t, nr, nc)).astype(rng.choice(["int16", "int32", "float32", "float64"]))
        zones = rng.integers(0, nz, (nr, nc)).astype("int16" if nz < 200 else "int32")
        znd = int(rng.choice([255, nz - 1 if nz > 1 else 254, -1]))
        nodata = -9999
        px[rng.random(px.shape) < rng.choice([0.0, 0.2, 0.9])] = nodata
        zones[rng.random(zones.shape) < 0.1] = znd
        for dt in (np.float32, np.float64):
            case = {"shape": [t, nr, nc], "nz": nz, "znd": znd, "dtype": np.dtype(dt).name, "i": i}
            rep.case("do_mean", case)
            got = do_mean(px, zones, nz, nodata, znd, dt)
            if got.dtype != np.dtype(dt) or got.shape != (t, nz, 2):
                rep.violation("do_mean.shape", "do_mean", case, f"dtype/shape {got.dtype} {got.shape}")
                continue
            want = oracle(px, zones, nz, nodata, znd)
            if not compare(got, want, dt, rep, "do_mean", case):
                continue
            # rearrangement invariance
            perm = rng.permutation(nr * nc)
            p2 = px.reshape(t, -1)[:, perm].reshape(t, nr, nc)
            z2 = zones.reshape(-1)[perm].reshape(nr, nc)
            got2 = do_mean(np.ascontiguousarray(p2), np.ascontiguousarray(z2), nz, nodata, znd, dt)
            compare(got2, want, dt, rep, "do_mean.permuted", case)
    # very large zone: more pixels than a float32 counter can count
    for val, dt in ((3, np.float32), (3, np.float64), (1001, np.float32)):
        px = np.full((1, big, big), val, dtype="int16")
        px[0, 0, :7] = -9999
        zones = np.zeros((big, big), dtype="uint8")
        case = {"shape": [1, big, big], "value": val, "dtype": np.dtype(dt).name}
        rep.case("do_mean.bigzone", case)
        got = do_mean(px, zones, 1, -9999, 255, dt)
        want = np.array([[[float(val), big * big - 7]]])
        compare(got, want, dt, rep, "do_mean.bigzone", case)
    # accessor: NaN -> nodata, coords, dask
    for i in range(5 if tier == "quick" else 30):
        t, nr, nc, nz = 3, int(rng.integers(2, 12)), int(rng.integers(2, 12)), int(rng.integers(1, 5))
        px = rng.integers(1, 100, (t, nr, nc)).astype("float64")
        px[rng.random(px.shape) < 0.2] = np.nan
        px[rng.random(px.shape) < 0.1] = -9999
        zones = rng.integers(0, nz + 1, (nr, nc))
        da = xr.DataArray(px, dims=("time", "y", "x"), attrs={"nodata": -9999})
        da["time"] = np.array([np.datetime64("2001-01-01") + np.timedelta64(int(k), "D") for k in range(t)])
        zn = xr.DataArray(zones, dims=("y", "x"), attrs={"nodata": nz})
        case = {"shape": [t, nr, nc], "nz": nz, "i": i}
        rep.case("accessor.zonal", case)
        ids = list(range(nz))
        want = oracle(np.where(np.isnan(px), -9999, px), zones, nz, -9999, nz)
        for dt in ("float32", "float64"):
            got = da.hdc.zonal.mean(zn, ids, dtype=dt)
            compare(got.values, want, np.dtype(dt).type, rep, "accessor.zonal", case)
            if got.dims != ("time", "zones", "stat") or list(got.coords["zones"].values) != ids:
                rep.violation("accessor.zonal.coords", "ZonalStatistics.mean", case, f"dims {got.dims}")
            lazy = da.chunk({"time": 1}).hdc.zonal.mean(zn.chunk(), ids, dtype=dt)
            compare(lazy.compute().values, want, np.dtype(dt).type, rep, "accessor.zonal.dask", case)


def replay(v, rep):
    case = v.get("case", {})
    if v.get("check") == "do_mean.bigzone":
        big, val, dt = case["shape"][1], case["value"], np.dtype(case["dtype"]).type
        px = np.full((1, big, big), val, dtype="int16")
        px[0, 0, :7] = -9999
        got = do_mean(px, np.zeros((big, big), dtype="uint8"), 1, -9999, 255, dt)
        compare(got, np.array([[[float(val), big * big - 7]]]), dt, rep, "do_mean.bigzone", case)
        rep.case("do_mean.bigzone", case)
    else:
        rep.notes.append("random case: re-run the stand-in with the same VERIF_SEED to reproduce")

"""C01 bounded stand-in.

(a) the interpreted source `ws2d.py_func` executed on exact rationals (Fraction object arrays) must
    satisfy the normal equations identically -- this also serves as the encoder self-test of the proof;
(b) the compiled float64 kernel must agree with that exact solution to 1e-6 (norm-wise relative error).
"""
from fractions import Fraction

import numpy as np

import hdc.algo.ops.ws2d as mod
from hdc.algo.ops.ws2d import ws2d


def reference_solve(fy, lam, fw):
    """independent exact solution of (W + lam D'D) z = W y: banded Gaussian elimination over the rationals
    (no code of the library is used)"""
    n = len(fy)
    A = [[Fraction(0)] * n for _ in range(n)]
    for r in range(n - 2):              # D'D = sum over second differences (1, -2, 1) at r, r+1, r+2
        for a, ca in ((r, 1), (r + 1, -2), (r + 2, 1)):
            for b, cb in ((r, 1), (r + 1, -2), (r + 2, 1)):
                A[a][b] += lam * ca * cb
    for i in range(n):
        A[i][i] += fw[i]
    b = [fw[i] * fy[i] for i in range(n)]
    for i in range(n):                  # s.p.d. system: no pivoting needed
        piv = A[i][i]
        for r in range(i + 1, min(n, i + 3)):
            f = A[r][i] / piv
            if f:
                for c in range(i, min(n, i + 3)):
                    A[r][c] -= f * A[i][c]
                b[r] -= f * b[i]
    z = [Fraction(0)] * n
    for i in range(n - 1, -1, -1):
        acc = b[i]
        for c in range(i + 1, min(n, i + 3)):
            acc -= A[i][c] * z[c]
        z[i] = acc / A[i][i]
    return z


def exact_solve(y, lam, w):
    """exact rational solution; when the interpreted source of ws2d can be run on Fractions it is used AND compared
    with the independent reference (encoder self-test of the proof), otherwise the reference alone"""
    fy = np.array([Fraction(v) for v in y], dtype=object)
    fw = np.array([Fraction(v) for v in w], dtype=object)
    ref = reference_solve(list(fy), Fraction(lam), list(fw))
    saved = getattr(mod, "zeros", None)
    try:
        mod.zeros = lambda k: np.array([Fraction(0)] * k, dtype=object)
        z = getattr(mod.ws2d, "py_func", mod.ws2d)(fy, Fraction(lam), fw)
        exact_solve.interpreted_ok = True
        if list(z) != ref:
            exact_solve.mismatch = {"y": [float(v) for v in fy][:30], "w": [float(v) for v in fw][:30], "lmda": float(lam)}
    except Exception:
        exact_solve.interpreted_ok = False
    finally:
        if saved is not None:
            mod.zeros = saved
    return fy, fw, np.array(ref, dtype=object)


exact_solve.mismatch = None
exact_solve.interpreted_ok = None


def rowA(w, lam, z, i, n):
    if i == 0:
        return (w[0] + lam) * z[0] - 2 * lam * z[1] + lam * z[2]
    if i == 1:
        return -2 * lam * z[0] + (w[1] + 5 * lam) * z[1] - 4 * lam * z[2] + lam * z[3]
    if i == n - 2:
        return lam * z[i - 2] - 4 * lam * z[i - 1] + (w[i] + 5 * lam) * z[i] - 2 * lam * z[i + 1]
    if i == n - 1:
        return lam * z[i - 2] - 2 * lam * z[i - 1] + (w[i] + lam) * z[i]
    return lam * z[i - 2] - 4 * lam * z[i - 1] + (w[i] + 6 * lam) * z[i] - 4 * lam * z[i + 1] + lam * z[i + 2]


def patterns(n, rng):
    yield "all", np.ones(n)
    w = np.zeros(n); w[0] = w[-1] = 1; yield "ends", w
    w = np.zeros(n); w[:2] = 1; yield "first-two", w
    w = np.zeros(n); w[-2:] = 1; yield "last-two", w
    w = np.zeros(n); w[n // 2 - 1:n // 2 + 1] = 1; yield "adjacent-mid", w
    w = np.zeros(n); w[0] = 1; w[n // 2] = 1; yield "far", w
    w = (rng.random(n) < 0.5).astype(float)
    if w.sum() < 2:
        w[:2] = 1
    yield "random", w
    w = rng.integers(0, 4, n).astype(float)
    if (w > 0).sum() < 2:
        w[:2] = 1
    yield "random-int", w


def check(y, lam, w, pat, rep, exact_only=False):
    n = len(y)
    case = {"n": n, "lmda": lam, "pattern": pat, "w": w.tolist() if n <= 30 else None, "y": y.tolist() if n <= 30 else None}
    fy, fw, z = exact_solve(y, lam, w)
    rep.case("exact.normal_eq", case)
    if exact_solve.mismatch is not None:
        rep.violation("exact.source_vs_reference", "ws2d", dict(case, **exact_solve.mismatch), "the interpreted source run on exact rationals differs from the independent exact solution of (W + lmda D'D) z = W y")
        exact_solve.mismatch = None
    fl = Fraction(lam)
    for i in range(n):
        if rowA(fw, fl, z, i, n) != fw[i] * fy[i]:
            rep.violation("exact.normal_eq", "ws2d", case, f"row {i} of (W + lmda D'D) z = W y violated in exact arithmetic")
            return
    if exact_only:
        return
    zf = ws2d(np.asarray(y, dtype="float64"), float(lam), np.asarray(w, dtype="float64"))
    ze = np.array([float(v) for v in z])
    scale = max(np.max(np.abs(ze)), 1e-300)
    err = float(np.max(np.abs(zf - ze)) / scale) if np.all(np.isfinite(zf)) else float("inf")
    rep.case("float64.rel_error", case)
    if err > 1e-6:
        # conditioning of the problem itself
        A = np.zeros((n, n))
        D = np.diff(np.eye(n), 2, axis=0)
        A = np.diag(w) + lam * D.T @ D
        kappa = float(np.linalg.cond(A))
        tags = ["ill-conditioned(kappa>=1e9)"] if kappa >= 1e9 or not np.isfinite(kappa) else []
        rep.violation("float64.rel_error", "ws2d", dict(case, kappa=kappa, rel_err=err), f"float64 relative error {err:.2e} > 1e-6 (cond(A) ~ {kappa:.1e})", tags=tags)


def run(tier, rng, rep):
    sizes = [4, 5, 6, 8, 13, 50, 200] + ([400] if tier == "thorough" else [])
    lams = [1e-6, 1e-3, 1.0, 10.0, 1e3, 1e6, 1e8]
    rep.bound = f"n in {sizes}, lmda in {lams}, 8 weight patterns incl. zero-weight runs at both ends/interior; exact rational run of py_func + float64 kernel"
    rep.rule = "grid of (n, lmda, pattern) with random integer y (seeded); distinct = distinct (check, n, lmda, pattern, y)"
    for n in sizes:
        for lam in lams:
            if n > 50 and lam not in (1e-6, 1.0, 1e8) and tier == "quick":
                continue
            for pat, w in patterns(n, rng):
                y = rng.integers(-10000, 10000, n).astype(float)
                check(y, lam, w, pat, rep, exact_only=False)
    # all 0/1 weight patterns with >= 2 ones for n = 4..8 (n = 9, 10 in thorough), three lambdas: float kernel vs exact reference
    import itertools
    for n in range(4, (11 if tier == "thorough" else 9)):
        for bits in itertools.product((0.0, 1.0), repeat=n):
            if sum(bits) < 2:
                continue
            w = np.array(bits)
            y = rng.integers(-1000, 1000, n).astype(float)
            for lam in (1e-3, 1.0, 100.0):
                check(y, lam, w, "exhaustive-01", rep)
    # fractional weights (asymmetric p / 1-p weights), including vectors whose sum is <= 1
    for _ in range(60 if tier == "quick" else 600):
        n = int(rng.integers(4, 14))
        k = int(rng.integers(2, n + 1))
        w = np.zeros(n); idx = rng.choice(n, k, replace=False)
        w[idx] = rng.choice([0.05, 0.1, 0.25, 0.5, 0.9, 0.95], k)
        y = rng.integers(-1000, 1000, n).astype(float)
        check(y, float(rng.choice([1e-2, 1.0, 50.0])), w, "fractional", rep)
    # many small exact instances (encoder self-test of the proof: all n, zero-weight runs)
    for _ in range(150 if tier == "quick" else 1500):
        n = int(rng.integers(4, 16))
        w = rng.integers(0, 3, n).astype(float)
        if (w > 0).sum() < 2:
            idx = rng.choice(n, 2, replace=False); w[idx] = 1
        y = rng.integers(-100, 100, n).astype(float)
        lam = float(rng.choice([1e-3, 0.5, 1.0, 10.0, 1e6]))
        check(y, lam, w, "small-random", rep, exact_only=True)


def replay(v, rep):
    c = v.get("case", {})
    if c.get("y") is None:
        rep.notes.append("large case: re-run the stand-in with the same VERIF_SEED")
        return
    check(np.array(c["y"], dtype=float), c["lmda"], np.array(c["w"], dtype=float), c.get("pattern", "replay"), rep)

"""Bounded stand-ins: the property's contract evaluated at run time on the real (compiled and
interpreted) code of /repo's working tree.  Labelled `bounded`, never counted as proved."""

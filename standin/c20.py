"""C20 bounded stand-in: tinterpolate / whitint against the exact rational daily curve."""
from fractions import Fraction

import numpy as np
import xarray as xr

import hdc.algo  # noqa: F401
from hdc.algo.ops import tinterpolate
from standin.c01 import exact_solve


def rint_frac(q):
    f = q.numerator // q.denominator
    r = q - f
    if r < Fraction(1, 2):
        return f
    if r > Fraction(1, 2):
        return f + 1
    return f if f % 2 == 0 else f + 1


def oracle(x, template, labels):
    m = len(template)
    temp = [Fraction(0)] * m
    j = 0
    for i in range(m):
        if template[i] != 0:
            temp[i] = Fraction(int(x[j])); j += 1
    _, _, z = exact_solve(temp, Fraction("0.00001"), [Fraction(int(t)) for t in template])
    outs, ties = [], []
    start = 0
    for i in range(1, m + 1):
        if i == m or labels[i] != labels[i - 1]:
            q = sum(z[start:i], Fraction(0)) / (i - start)
            outs.append(rint_frac(q))
            fr = q - (q.numerator // q.denominator)
            ties.append(abs(fr - Fraction(1, 2)) < Fraction(1, 10 ** 6))
            start = i
    return outs, ties, z


def make_case(rng, nobs, spacing, labeling):
    if spacing == "irregular":
        gaps = rng.integers(1, 20, nobs - 1)
    else:
        gaps = np.full(nobs - 1, spacing)
    pos = np.concatenate([[0], np.cumsum(gaps)])
    lead, trail = int(rng.integers(0, 6)), int(rng.integers(0, 6))
    m = int(pos[-1]) + 1 + lead + trail
    template = np.zeros(m)
    template[pos + lead] = 1
    per = {"dekad": 10, "pentad": 5, "month": 30, "dekad-of-year": 10, "month-of-year": 30}[labeling.split(":")[0]]
    labels = (np.arange(m) // per).astype("int32") + int(rng.integers(0, 50))
    if "of-year" in labeling:
        # period-of-year labels over a season that crosses the new year: contiguous runs whose values are NOT ascending (…, 35, 36, 1, 2, …)
        cyc = 36 if per == 10 else 12
        nruns = int(labels.max() - labels.min()) + 1
        if nruns <= cyc:
            labels = ((labels - labels.min() + cyc - max(1, nruns // 2)) % cyc + 1).astype("int32")
    return template, labels


def check(x, template, labels, rep, name="tinterpolate"):
    case = {"x": x.tolist() if len(x) <= 30 else None, "nobs": int(len(x)), "m": int(len(template)),
            "marks": np.flatnonzero(template).tolist() if len(x) <= 30 else None, "labels_runs": int(len(np.unique(labels)))}
    rep.case(name, case)
    nl = len(np.unique(labels))
    t0, l0, x0 = template.copy(), labels.copy(), x.copy()
    got = tinterpolate(x, template, labels, np.zeros(nl, dtype="u1"))
    if not (np.array_equal(t0, template) and np.array_equal(l0, labels) and np.array_equal(x0, x)):
        rep.violation(name + ".frame", "tinterpolate", case, "an input array was modified")
    want, ties, _ = oracle(x, template, labels)
    if len(got) != len(want):
        rep.violation(name + ".length", "tinterpolate", case, f"{len(got)} outputs for {len(want)} runs")
        return
    for k, (g, w, tie) in enumerate(zip(got.tolist(), want, ties)):
        if not -32768 <= w <= 32767:
            continue   # the exact period mean leaves int16 (extrapolation beyond the marks): outside the claim
        if g != w and not (tie and abs(g - w) <= 1):
            rep.violation(name, "tinterpolate", dict(case, labels=labels.tolist() if len(labels) <= 80 else None), f"run {k}: got {g}, rounded mean of the exact daily curve {w}")
            return
    return got


def run(tier, rng, rep):
    rep.bound = "5..120 observations (400 in thorough), spacings 5/8/10/16-day and irregular, dekad/pentad/month labels, daily length up to ~2000 (4000 thorough); exact rational oracle"
    rep.rule = "random int16 series per (nobs, spacing, labeling); distinct = distinct (check, series, template)"
    sizes = [5, 6, 9, 23, 60] + ([120, 400] if tier == "thorough" else [120])
    for nobs in sizes:
        for spacing in (5, 8, 10, 16, "irregular"):
            if nobs * (spacing if spacing != "irregular" else 10) > (4000 if tier == "thorough" else 1300):
                continue
            for labeling in ("dekad", "pentad", "month", "dekad-of-year", "month-of-year"):
                template, labels = make_case(rng, nobs, spacing, labeling)
                x = rng.integers(-2000, 10000, nobs).astype("int16")
                check(x, template, labels, rep)
                # constant series -> that constant everywhere
                c = int(rng.integers(-5000, 5000))
                got = check(np.full(nobs, c, dtype="int16"), template, labels, rep, "constant")
                if got is not None and not (got == c).all():
                    rep.violation("constant", "tinterpolate", {"c": c, "nobs": nobs, "spacing": str(spacing)}, f"constant {c} -> {got.tolist()[:10]}")
                # linear in day number -> exact period means of the line
                a, b = int(rng.integers(-100, 100)), int(rng.integers(-3, 4))
                days = np.flatnonzero(template)
                if np.abs(a + b * np.arange(len(template))).max() < 30000:
                    xl = (a + b * days).astype("int16")
                    got = check(xl, template, labels, rep, "linear")
                    if got is not None:
                        line = a + b * np.arange(len(template))
                        start = 0; k = 0
                        for i in range(1, len(labels) + 1):
                            if i == len(labels) or labels[i] != labels[i - 1]:
                                q = Fraction(int(line[start:i].sum()), i - start)
                                fr = q - (q.numerator // q.denominator)
                                tie = abs(fr - Fraction(1, 2)) < Fraction(1, 10 ** 6)
                                if got[k] != rint_frac(q) and not (tie and abs(int(got[k]) - rint_frac(q)) <= 1) and -32768 <= rint_frac(q) <= 32767:
                                    rep.violation("linear", "tinterpolate", {"a": a, "b": b, "nobs": nobs, "spacing": str(spacing)}, f"run {k}: {got[k]} vs mean of the line {float(q)}")
                                    break
                                start = i; k += 1
    # accessor
    for _ in range(3 if tier == "quick" else 15):
        nobs = int(rng.integers(5, 20))
        template, labels = make_case(rng, nobs, 10, "dekad")
        cube = rng.integers(0, 9000, (nobs, 2, 2)).astype("int16")
        da = xr.DataArray(cube, dims=("time", "y", "x"))
        da["time"] = np.array([np.datetime64("2001-01-01") + np.timedelta64(int(k) * 10, "D") for k in range(nobs)])
        rep.case("accessor.whitint", {"nobs": nobs})
        res = da.hdc.whit.whitint(labels, template)
        nl = len(np.unique(labels))
        if res.sizes.get("newtime") != nl or res.dtype != np.int16:
            rep.violation("accessor.whitint", "WhittakerSmoother.whitint", {"nobs": nobs}, f"newtime={res.sizes.get('newtime')} dtype={res.dtype}, want {nl} int16")
            continue
        for r in range(2):
            for c in range(2):
                want, ties, _ = oracle(cube[:, r, c], template, labels)
                g = res.transpose("y", "x", "newtime").values[r, c].tolist()
                if any(a != b and not (t and abs(a - b) <= 1) and -32768 <= b <= 32767 for a, b, t in zip(g, want, ties)):
                    rep.violation("accessor.whitint", "WhittakerSmoother.whitint", {"nobs": nobs, "pixel": [r, c]}, f"{g[:8]} vs {want[:8]}")
        try:
            da.astype("float32").hdc.whit.whitint(labels, template)
            rep.violation("accessor.whitint.dtype", "WhittakerSmoother.whitint", {}, "non-int16 input did not raise")
        except NotImplementedError:
            pass


def replay(v, rep):
    rep.notes.append("re-run the stand-in with the same VERIF_SEED to reproduce (cases are generated from the seed)")

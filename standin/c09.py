"""C09 bounded stand-in: SPI calibration window and grouping select exactly the intended samples."""
import numpy as np
import pandas as pd
import xarray as xr

import hdc.algo  # noqa: F401
from hdc.algo.ops.stats import gammastd_yxt
from hdc.algo.utils import get_calibration_indices, to_linspace

ND = -9999


def axis(rng, n, regular):
    if regular == 2:
        # steps stamped inside the day (12:00, 10:30, ...): date-only calibration strings fall between steps of the same day
        steps = np.cumsum(rng.integers(1, 12, n))
        hours = rng.choice([6, 10, 12, 18], n)
        return pd.DatetimeIndex([pd.Timestamp("2000-01-01") + pd.Timedelta(days=int(d), hours=int(h), minutes=30 * int(h == 10)) for d, h in zip(steps, hours)])
    if regular:
        return pd.date_range("2000-01-01", periods=n, freq="10D")
    steps = np.cumsum(rng.integers(1, 40, n))
    return pd.DatetimeIndex(np.datetime64("2000-01-01") + steps.astype("timedelta64[D]"))


def make_cube(rng, t):
    cube = np.round(rng.gamma(2.0, 40.0, (2, 2, t))).astype("int16")
    cube[rng.random(cube.shape) < 0.05] = ND
    return cube


def window_positions(tix, begin, end):
    vals = tix.values
    return [i for i in range(len(vals)) if np.datetime64(begin) <= vals[i] <= np.datetime64(end)]


def run(tier, rng, rep):
    rep.bound = "regular and irregular sorted axes (6..80 steps), begin/end on / between / before / after steps, 1..12 groups with int and string labels (interleaved and blocked), a 40000-step axis, invalid windows"
    rep.rule = "random axes and windows (seeded); distinct = distinct (check, axis, window, labels)"
    for it in range(25 if tier == "quick" else 200):
        t = int(rng.integers(6, 80))
        tix = axis(rng, t, regular=it % 3)
        cube = make_cube(rng, t)
        da = xr.DataArray(cube, dims=("y", "x", "time"), coords={"time": tix}, attrs={"nodata": ND})
        # pick begin / end: on a step, between steps, before / after the axis
        def pick(lo, hi):
            i = int(rng.integers(lo, hi))
            mode = rng.choice(["on", "between", "outside"])
            if mode == "on":
                return tix[i]
            if mode == "between" and i + 1 < t:
                return tix[i] + (tix[i + 1] - tix[i]) / 2
            return tix[i]
        begin = pick(0, t // 2)
        end = pick(t // 2, t)
        if it % 3 == 2:
            # date-only bounds (midnight) on an axis stamped inside the day
            begin = pd.Timestamp(begin).normalize()
            end = pd.Timestamp(end).normalize()
        fmt = (lambda v: pd.Timestamp(v).strftime("%Y-%m-%d")) if it % 3 == 2 else str
        if rng.random() < 0.15:
            begin = tix[0] - pd.Timedelta(days=100)
        if rng.random() < 0.15:
            end = tix[-1] + pd.Timedelta(days=100)
        pos = window_positions(tix, begin, end)
        case = {"t": t, "begin": str(begin), "end": str(end), "n_in_window": len(pos), "axis_kind": int(it % 3)}
        rep.case("window", case, nontrivial=len(pos) >= 2)
        a, b = get_calibration_indices(tix, (fmt(begin), fmt(end)))
        if list(range(a, b)) != pos:
            rep.violation("window.indices", "get_calibration_indices", case, f"indices [{a},{b}) but steps inside the window are {pos[:3]}..{pos[-3:]}")
            continue
        try:
            res = da.hdc.algo.spi(calibration_begin=fmt(begin), calibration_end=fmt(end))
        except ValueError:
            if len(pos) >= 2:
                rep.violation("window.raises", "PixelAlgorithms.spi", case, "ValueError for a valid window")
            continue
        if len(pos) < 2:
            rep.violation("window.invalid", "PixelAlgorithms.spi", case, f"window with {len(pos)} steps did not raise ValueError")
            continue
        want = gammastd_yxt(cube.astype("float64") if False else cube, ND, pos[0], pos[-1] + 1)
        if not np.array_equal(res.values, want):
            rep.violation("window.fit", "PixelAlgorithms.spi", case, "SPI differs from the kernel fitted on exactly the steps inside the window")
        if res.attrs.get("spi_calibration_begin") != str(tix[pos[0]]) or res.attrs.get("spi_calibration_end") != str(tix[pos[-1]]):
            rep.violation("window.attrs", "PixelAlgorithms.spi", case, f"attrs {res.attrs.get('spi_calibration_begin')} .. {res.attrs.get('spi_calibration_end')}")
        # ---- groups
        ng = int(rng.choice([1, 2, 3, 12]))
        if t < 3 * ng:
            continue
        labels_int = (np.arange(t) % ng) if rng.random() < 0.5 else np.sort(np.arange(t) % ng)
        perm = rng.permutation(ng)
        variants = {"int": labels_int, "shuffled-int": perm[labels_int] * 7 + 3, "str": np.array([str(10 - v) for v in labels_int])}
        results = {}
        ok_groups = True
        for nm, lab in variants.items():
            gcase = dict(case, ng=ng, labels=nm)
            rep.case("groups", gcase)
            try:
                results[nm] = da.hdc.algo.spi(calibration_begin=fmt(begin), calibration_end=fmt(end), groups=lab).values
            except ValueError:
                results[nm] = None
        vals = list(results.values())
        if any((v is None) != (vals[0] is None) for v in vals) or (vals[0] is not None and any(not np.array_equal(v, vals[0]) for v in vals[1:])):
            rep.violation("groups.labels", "PixelAlgorithms.spi", dict(case, ng=ng), "result depends on the spelling/type/order of the group labels, not only on the partition")
        if vals[0] is None:
            # must be because some group has < 2 steps in the window
            small = any(len([p for p in pos if labels_int[p] == g]) < 2 for g in range(ng))
            if not small:
                rep.violation("groups.raises", "PixelAlgorithms.spi", dict(case, ng=ng), "ValueError although every group has >= 2 steps in the window")
            continue
        for g in range(ng):
            sel = np.flatnonzero(labels_int == g)
            sub = xr.DataArray(cube[:, :, sel], dims=("y", "x", "time"), coords={"time": tix[sel]}, attrs={"nodata": ND})
            try:
                want = sub.hdc.algo.spi(calibration_begin=fmt(begin), calibration_end=fmt(end)).values
            except ValueError:
                continue
            if not np.array_equal(vals[0][:, :, sel], want):
                rep.violation("groups.decomposition", "gammastd_grp", dict(case, ng=ng, grp=g), "grouped SPI differs from the ungrouped SPI of the group's sub-series")
                break
        if ng == 1 and not np.array_equal(vals[0], res.values):
            rep.violation("groups.single", "PixelAlgorithms.spi", case, "a single group differs from the ungrouped result")
    # invalid windows
    tix = axis(rng, 12, True)
    da = xr.DataArray(make_cube(rng, 12), dims=("y", "x", "time"), coords={"time": tix}, attrs={"nodata": ND})
    for nm, kw in (("reversed", {"calibration_begin": str(tix[8]), "calibration_end": str(tix[3])}),
                   ("single", {"calibration_begin": str(tix[4]), "calibration_end": str(tix[4])}),
                   ("empty", {"calibration_begin": str(tix[4] + pd.Timedelta(days=1)), "calibration_end": str(tix[4] + pd.Timedelta(days=2))}),
                   ("after", {"calibration_begin": str(tix[-1] + pd.Timedelta(days=1))}),
                   ("before", {"calibration_end": str(tix[0] - pd.Timedelta(days=1))})):
        rep.case("invalid." + nm, kw)
        try:
            da.hdc.algo.spi(**kw)
            rep.violation("invalid." + nm, "PixelAlgorithms.spi", kw, "no ValueError")
        except ValueError:
            pass
    # to_linspace: only the partition matters
    for _ in range(20):
        keys = rng.choice(["10", "2", "a", "B", "33"], size=int(rng.integers(1, 20)))
        r, ks = to_linspace(np.array(keys, dtype="str"))
        rep.case("to_linspace", {"keys": keys.tolist()})
        if not all((r[i] == r[j]) == (keys[i] == keys[j]) for i in range(len(keys)) for j in range(len(keys))) or r.min() < 0 or r.max() >= len(ks):
            rep.violation("to_linspace", "to_linspace", {"keys": keys.tolist()}, f"{r.tolist()}")
    # long axis: more than 32767 steps in one group
    tl = pd.date_range("1900-01-01", periods=40000, freq="D")
    rep.case("long_axis", {"steps": 40000})
    try:
        ci = get_calibration_indices(tl, ("1900-01-01", "2009-01-01"), np.zeros(40000, dtype=int), 1)
        if int(ci[0, 0]) != 0 or int(ci[0, 1]) != len(window_positions(tl, "1900-01-01", "2009-01-01")):
            rep.violation("long_axis", "get_calibration_indices", {"steps": 40000}, f"indices {ci.tolist()}")
    except Exception as exc:
        rep.violation("long_axis", "get_calibration_indices", {"steps": 40000}, f"{type(exc).__name__}: {exc}")


def replay(v, rep):
    rep.notes.append("re-run with the same VERIF_SEED (cases are generated from the seed)")
    if v.get("check") == "long_axis":
        tl = pd.date_range("1900-01-01", periods=40000, freq="D")
        rep.case("long_axis", {"steps": 40000})
        try:
            get_calibration_indices(tl, ("1900-01-01", "2009-01-01"), np.zeros(40000, dtype=int), 1)
        except Exception as exc:
            rep.violation("long_axis", "get_calibration_indices", {"steps": 40000}, f"{type(exc).__name__}: {exc}")

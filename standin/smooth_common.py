"""Shared oracles for the smoother stand-ins (C02..C06): exact rational PLS / expectile curves."""
from fractions import Fraction

import numpy as np

from standin.c01 import exact_solve

HALF = Fraction(1, 2)
TIE = Fraction(1, 10 ** 6)


def rint_frac(q):
    f = q.numerator // q.denominator
    r = q - f
    if r < HALF:
        return f
    if r > HALF:
        return f + 1
    return f if f % 2 == 0 else f + 1


def is_tie(q):
    r = q - (q.numerator // q.denominator)
    return abs(r - HALF) < TIE


def valid_mask(y, nodata, strict=False):
    y = np.asarray(y, dtype="float64")
    m = y != nodata
    if not strict:
        m &= np.isfinite(y)
    return m


def pls_exact(y, lam, w):
    """exact solution of (W + lam D'D) z = W y (list of Fractions); y cleaned at zero-weight cells"""
    yy = [Fraction(0) if wi == 0 else Fraction(float(v)) for v, wi in zip(y, w)]
    _, _, z = exact_solve(yy, Fraction(lam), [wi if isinstance(wi, Fraction) else Fraction(float(wi)) for wi in w])
    return list(z)


def expectile_exact(y, lam, v, p, passes=10):
    """IRLS from the zero curve, at most `passes` reweighting passes (exact arithmetic).
    returns (z, envelope_tie) ; envelope_tie = some |y_i - z_i| < 1e-6 at a decision on a valid cell"""
    n = len(y)
    p = Fraction(p)
    z = [Fraction(0)] * n
    tie = False
    ww = None
    for _ in range(passes):
        ww = []
        for i in range(n):
            yi = Fraction(float(y[i])) if v[i] else Fraction(0)
            if v[i] and abs(yi - z[i]) < TIE:
                tie = True
            ww.append((p if yi > z[i] else 1 - p) * (1 if v[i] else 0))
        znew = pls_exact(y, lam, ww)
        if all(a == b for a, b in zip(znew, z)):
            break
        z = znew
    return pls_exact(y, lam, ww), tie


def compare_rounded(got, z, tol_mask=None):
    """index of the first cell where the int output differs from rint(z) beyond the tie rule, else None"""
    for i, (g, q) in enumerate(zip(got, z)):
        w = rint_frac(q)
        if not -32768 <= w <= 32767:
            return None if True else i     # curve leaves int16: outside the claim -> whole case skipped by caller
        if int(g) != w and not (is_tie(q) and abs(int(g) - w) <= 1):
            return i
    return None


def leaves_int16(z):
    return any(not -32760 <= q <= 32760 for q in z)


def gappy_series(rng, n, kind="random", lo=-1000, hi=10000):
    y = rng.integers(lo, hi, n).astype("float64")
    miss = np.zeros(n, bool)
    if kind == "random":
        miss = rng.random(n) < rng.choice([0.1, 0.3, 0.6])
    elif kind == "runs":
        a = int(rng.integers(0, n)); miss[a:a + max(1, n // 3)] = True
    elif kind == "leading":
        miss[: max(1, n // 4)] = True
    elif kind == "trailing":
        miss[-max(1, n // 4):] = True
    elif kind == "all-but-2":
        miss[:] = True; miss[rng.choice(n, 2, replace=False)] = False
    elif kind == "all-but-1":
        miss[:] = True; miss[int(rng.integers(0, n))] = False
    elif kind == "all":
        miss[:] = True
    return y, miss

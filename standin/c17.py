"""C17 bounded stand-in: rolling_sum / mean_grp against the property's own oracle."""
import itertools

import numpy as np
import xarray as xr

import hdc.algo  # noqa: F401
from hdc.algo.ops.stats import mean_grp, rolling_sum

ND = None  # marker for a missing cell in abstract series


def concretise(series, nodata, dtype):
    return np.array([nodata if v is ND else v for v in series], dtype=dtype)


def oracle_rolling(series, ws):
    """per position: ('nodata',) | ('sum', s) | ('either', s)  following the statement's trichotomy"""
    out = []
    for i in range(len(series)):
        if i - ws + 1 < 0:
            out.append(("head",))
            continue
        w = series[i - ws + 1:i + 1]
        valid = [v for v in w if v is not ND]
        if len(valid) == len(w):
            out.append(("sum", sum(valid)))
        elif not valid:
            out.append(("nodata",))
        else:
            out.append(("either", sum(valid)))
    return out


def check_rolling(series, ws, nodata, dtype, rep, check="rolling_sum"):
    x = concretise(series, nodata, dtype)
    rep.case(check, {"series": ["nd" if v is ND else v for v in series], "ws": ws, "nodata": nodata, "dtype": dtype})
    got = rolling_sum(x, ws, nodata)
    want = oracle_rolling(series, ws)
    for i, (g, w) in enumerate(zip(got.tolist(), want)):
        ok = (w[0] == "head" and g == nodata) or (w[0] == "sum" and g == w[1]) or (w[0] == "nodata" and g == nodata) or \
             (w[0] == "either" and (g == nodata or g == w[1]))
        if not ok:
            rep.violation(check, "rolling_sum", {"series": ["nd" if v is ND else v for v in series], "ws": ws, "nodata": nodata, "dtype": dtype},
                          f"position {i}: got {g}, oracle {w}")
            return got
    return got


def oracle_mean_grp(series, groups):
    out = []
    for i, g in enumerate(groups):
        vals = [v for v, gg in zip(series, groups) if gg == g and v is not ND]
        out.append(None if not vals else sum(vals) / len(vals))
    return out


def check_mean_grp(series, groups, nodata, dtype, rep, check="mean_grp"):
    x = concretise(series, nodata, dtype)
    g = np.array(groups, dtype="int16")
    k = len(set(groups))
    rep.case(check, {"series": ["nd" if v is ND else v for v in series], "groups": list(groups), "nodata": nodata, "dtype": dtype})
    got = mean_grp(x, g, k, nodata)
    want = oracle_mean_grp(series, groups)
    for i, (a, w) in enumerate(zip(got.tolist(), want)):
        exp = nodata if w is None else w
        if not np.isclose(a, exp, rtol=1e-6, atol=1e-6):
            rep.violation(check, "mean_grp", {"series": ["nd" if v is ND else v for v in series], "groups": list(groups), "nodata": nodata, "dtype": dtype},
                          f"position {i}: got {a}, want {exp}")
            return got
    return got


def run(tier, rng, rep):
    L = 8 if tier == "thorough" else 6
    vals = [ND, -2, -1, 0, 1, 2] if tier == "thorough" else [ND, -1, 0, 2]
    rep.bound = (f"rolling_sum: all series over {{nodata}} U {[v for v in vals if v is not ND]} up to length {L}, all windows 1..length, "
                 f"sentinels -9999/7/0-free; mean_grp: all labelings with groups 0..k-1 up to length {min(L, 6)}; random longer series over int16/int64/float32/int32")
    rep.rule = "abstract series (missing cells marked) enumerated exhaustively; each evaluated with two sentinel values; distinct = distinct (check, series, params)"
    sentinels = (-9999, 7777)  # far outside the range of any window sum / mean of the enumerated values
    for n in range(1, L + 1):
        for series in itertools.product(vals, repeat=n):
            series = list(series)
            for ws in range(1, n + 1):
                res = []
                for nd in sentinels:
                    res.append(check_rolling(series, ws, nd, "int16", rep))
                # independence from the sentinel value (beyond being echoed)
                a, b = res
                for i in range(n):
                    ea, eb = a[i] == sentinels[0], b[i] == sentinels[1]
                    if ea != eb or (not ea and a[i] != b[i]):
                        rep.violation("rolling_sum.sentinel", "rolling_sum", {"series": ["nd" if v is ND else v for v in series], "ws": ws},
                                      f"position {i}: {a[i]} with nodata={sentinels[0]} vs {b[i]} with nodata={sentinels[1]}")
                        break
    # all dtypes, random longer series
    for _ in range(60 if tier == "quick" else 600):
        n = int(rng.integers(2, 60))
        series = [ND if rng.random() < 0.3 else int(rng.integers(-50, 50)) for _ in range(n)]
        ws = int(rng.integers(1, n + 1))
        for dt in ("int16", "int64", "float32"):
            check_rolling(series, ws, -9999, dt, rep, "rolling_sum.random")
    # mean_grp: all labelings
    LG = min(L, 6) if tier == "thorough" else 5
    gvals = [ND, -1, 0, 3]
    for n in range(1, LG + 1):
        for series in itertools.product(gvals, repeat=n):
            for k in range(1, min(n, 3) + 1):
                for groups in itertools.product(range(k), repeat=n):
                    if set(groups) != set(range(k)):
                        continue
                    r = [check_mean_grp(list(series), groups, nd, "int16", rep) for nd in sentinels]
                    for i in range(n):
                        ea, eb = r[0][i] == sentinels[0], r[1][i] == sentinels[1]
                        if ea != eb or (not ea and r[0][i] != r[1][i]):
                            rep.violation("mean_grp.sentinel", "mean_grp", {"series": ["nd" if v is ND else v for v in series], "groups": list(groups)},
                                          f"position {i}: {r[0][i]} vs {r[1][i]}")
                            break
    for _ in range(60 if tier == "quick" else 600):
        n = int(rng.integers(2, 80))
        k = int(rng.integers(1, 8))
        groups = list(rng.permutation(np.arange(n) % k)) if n >= k else [0] * n
        series = [ND if rng.random() < 0.3 else int(rng.integers(-500, 500)) for _ in range(n)]
        for dt in ("int16", "int32", "int64", "float32"):
            check_mean_grp(series, groups, -9999, dt, rep, "mean_grp.random")
    # accessor level: trimming, nodata from attrs / argument / missing
    for _ in range(6 if tier == "quick" else 60):
        n = int(rng.integers(3, 12))
        ws = int(rng.integers(1, n + 1))
        cube = rng.integers(-20, 20, (n, 2, 2)).astype("int16")
        cube[rng.random(cube.shape) < 0.3] = -9999
        da = xr.DataArray(cube, dims=("time", "y", "x"), attrs={"nodata": -9999})
        da["time"] = np.array([np.datetime64("2001-01-01") + np.timedelta64(int(i), "D") for i in range(n)])
        rep.case("accessor.rolling", {"n": n, "ws": ws})
        out = da.hdc.rolling.sum(ws)
        if out.sizes["time"] != n - ws + 1:
            rep.violation("accessor.rolling", "RollingWindowAlgos.sum", {"n": n, "ws": ws}, f"length {out.sizes['time']} != {n - ws + 1}")
            continue
        o2 = out.transpose("y", "x", "time").values
        for r in range(2):
            for c in range(2):
                series = [ND if v == -9999 else int(v) for v in cube[:, r, c]]
                want = oracle_rolling(series, ws)[ws - 1:]
                for i, w in enumerate(want):
                    g = o2[r, c, i]
                    ok = (w[0] == "sum" and g == w[1]) or (w[0] == "nodata" and g == -9999) or (w[0] == "either" and (g == -9999 or g == w[1]))
                    if not ok:
                        rep.violation("accessor.rolling", "RollingWindowAlgos.sum", {"series": ["nd" if v is ND else v for v in series], "ws": ws}, f"pos {i}: {g} vs {w}")
        da2 = da.copy()
        da2.attrs = {}
        try:
            da2.hdc.rolling.sum(ws)
            rep.violation("accessor.rolling.nodata", "RollingWindowAlgos.sum", {"n": n}, "no ValueError without nodata")
        except ValueError:
            pass
        grp = np.arange(n) % 3 if n >= 3 else np.zeros(n, dtype=int)
        mg = da.hdc.algo.mean_grp(grp.astype("int16")).transpose("y", "x", "time").values
        for r in range(2):
            for c in range(2):
                series = [ND if v == -9999 else int(v) for v in cube[:, r, c]]
                want = oracle_mean_grp(series, grp.tolist())
                for i, w in enumerate(want):
                    exp = -9999 if w is None else w
                    if not np.isclose(mg[r, c, i], exp, rtol=1e-5, atol=1):  # int16 output of the accessor truncates
                        rep.violation("accessor.mean_grp", "PixelAlgorithms.mean_grp", {"series": ["nd" if v is ND else v for v in series], "groups": grp.tolist()}, f"pos {i}: {mg[r, c, i]} vs {exp}")


def replay(v, rep):
    case = v.get("case", {})
    series = [ND if x == "nd" else x for x in case.get("series", [])]
    if "ws" in case:
        for nd in ([case["nodata"]] if "nodata" in case else [-9999, 7777]):
            check_rolling(series, case["ws"], nd, case.get("dtype", "int16"), rep, v.get("check", "rolling_sum"))
    elif "groups" in case:
        for nd in ([case["nodata"]] if "nodata" in case else [-9999, 7777]):
            check_mean_grp(series, case["groups"], nd, case.get("dtype", "int16"), rep, v.get("check", "mean_grp"))

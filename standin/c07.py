"""C07 bounded stand-in: SPI against an independent SciPy evaluation of the gamma-MLE / zero-mixture / normal-quantile formula."""
import numpy as np
import xarray as xr
from scipy import optimize, special

import hdc.algo  # noqa: F401
from hdc.algo.ops.stats import gammastd_grp, gammastd_yxt

ND = -9999


def spi_for(x, valid, p0, pos_mean, s, ):
    f = lambda a: np.log(a) - special.digamma(a) - s
    lo, hi = 1e-6, 1e12
    if s <= 0 or f(lo) * f(hi) > 0:
        return None
    alpha = optimize.brentq(f, lo, hi, xtol=1e-14, rtol=8.9e-16, maxiter=500)
    beta = pos_mean / alpha
    out = np.full(len(x), np.nan)
    out[valid] = 1000 * special.ndtri(p0 + (1 - p0) * special.gammainc(alpha, x[valid] / beta))
    return out


def interval_reference(x, cal):
    """float32 inputs: SPI range when the MLE statistic s carries the error of single-precision logarithms"""
    x = np.asarray(x, dtype="float64")
    valid = (x != ND) & (x >= 0)
    nv = int(valid.sum())
    p0 = float(((x != ND) & (x == 0)).sum()) / nv
    fit = x[cal[0]:cal[1]]
    pos = fit[fit > 0]
    s = np.log(pos.mean()) - np.log(pos).mean()
    err = 8 * 1.2e-7 * max(1.0, np.abs(np.log(pos)).max())
    if s - err <= 0:
        return None
    a = spi_for(x, valid, p0, pos.mean(), s - err)
    b = spi_for(x, valid, p0, pos.mean(), s + err)
    if a is None or b is None:
        return None
    return np.minimum(a, b), np.maximum(a, b)


def reference(x, cal):
    """unrounded 1000*SPI per cell (nan for cells that must be nodata), or None when the pixel is outside the claim"""
    x = np.asarray(x, dtype="float64")
    valid = (x != ND) & (x >= 0)
    nv = int(valid.sum())
    if nv == 0:
        return None
    p0 = float(((x != ND) & (x == 0)).sum()) / nv
    if p0 > 0.9:
        return None
    fit = x[cal[0]:cal[1]]
    pos = fit[fit > 0]
    if len(np.unique(pos)) < 2:
        return None
    s = np.log(pos.mean()) - np.log(pos).mean()
    if s <= 0:
        return None
    f = lambda a: np.log(a) - special.digamma(a) - s
    lo, hi = 1e-6, 1e9
    if f(lo) * f(hi) > 0:
        return None
    alpha = optimize.brentq(f, lo, hi, xtol=1e-14, rtol=8.9e-16, maxiter=500)
    beta = pos.mean() / alpha
    out = np.full(len(x), np.nan)
    out[valid] = 1000 * special.ndtri(p0 + (1 - p0) * special.gammainc(alpha, x[valid] / beta))
    return out, alpha


def check(x, cal, rep, dtype="float64", name="spi"):
    xin = np.asarray(x).astype(dtype)
    ref = reference(xin.astype("float64"), cal)
    case = {"x": xin.tolist() if len(xin) <= 40 else None, "t": len(xin), "cal": list(cal), "dtype": dtype}
    rep.case(name, case, nontrivial=ref is not None)
    if ref is None:
        return
    ref, alpha = ref
    got = gammastd_yxt(xin.reshape(1, 1, -1), ND, cal[0], cal[1])[0, 0]
    tol = 0.5 + 1e-3
    band = None
    if dtype == "float32":
        band = interval_reference(xin.astype("float64"), cal)
        if band is None:
            return      # the single-precision error of the logarithms exceeds the statistic itself: no claim
    for i in range(len(xin)):
        if np.isnan(ref[i]):
            if got[i] != ND:
                rep.violation(name + ".nodata", "gammastd", case, f"cell {i}: invalid observation got {int(got[i])}")
                return
            continue
        if abs(ref[i]) > 7000:
            continue          # beyond the resolution of the float64 CDF: left to C08
        if got[i] == ND and ref[i] != ND:
            rep.violation(name, "gammastd", case, f"cell {i}: nodata, reference {ref[i]:.3f} (alpha={alpha:.4g})")
            return
        if band is not None:
            if not (band[0][i] - 1.0 - 0.01 * abs(band[0][i]) <= float(got[i]) <= band[1][i] + 1.0 + 0.01 * abs(band[1][i])):
                rep.violation(name, "gammastd", case, f"cell {i}: got {int(got[i])}, outside the single-precision interval [{band[0][i]:.2f}, {band[1][i]:.2f}]")
                return
            continue
        if abs(float(got[i]) - ref[i]) > tol:
            rep.violation(name, "gammastd", case, f"cell {i}: got {int(got[i])}, SciPy reference 1000*SPI = {ref[i]:.4f} (alpha={alpha:.4g})")
            return


def run(tier, rng, rep):
    rep.bound = "gamma samples with shapes 0.05..500, scales 0.1..1e4, zero share 0..0.9, ties, nodata, calibration sub-windows; lengths 3..120 (400 thorough); int16 / float64 exact, float32 loose"
    rep.rule = "random series (seeded); non-trivial = the pixel is inside the claim (<= 90% zeros, >= 2 distinct positive values in the window); distinct = distinct (check, series, window)"
    sizes = [3, 6, 12, 36, 120] + ([400] if tier == "thorough" else [])
    for t in sizes:
        for shape in (0.05, 0.5, 2.0, 30.0, 500.0):
            for scale in (0.1, 10.0, 1e4):
                for zs in (0.0, 0.3, 0.85):
                    if tier == "quick" and rng.random() < 0.5:
                        continue
                    x = rng.gamma(shape, scale, t)
                    x[rng.random(t) < zs] = 0
                    if rng.random() < 0.3:
                        x[rng.random(t) < 0.15] = ND
                    cal = (0, t) if rng.random() < 0.6 or t < 6 else (int(rng.integers(0, t // 3)), int(rng.integers(2 * t // 3, t + 1)))
                    check(x, cal, rep, "float64")
                    xi = np.where(x == ND, ND, np.clip(np.round(x), 0, 30000))
                    check(xi, cal, rep, "int16" if False else "float64", "spi.int")
                    check(x, cal, rep, "float32", "spi.float32")
    # grouped kernel on int16 agrees with the formula per group
    for _ in range(6 if tier == "quick" else 40):
        t = int(rng.integers(8, 60)); ng = int(rng.integers(1, 4))
        x = np.round(rng.gamma(2.0, 50.0, t)).astype("int16")
        g = (np.arange(t) % ng).astype("int16")
        cal = np.array([[0, int((g == i).sum())] for i in range(ng)], dtype="int64")
        res = gammastd_grp(x, g, ng, ND, cal)
        for i in range(ng):
            ref = reference(x[g == i].astype("float64"), (0, int((g == i).sum())))
            rep.case("spi.grp", {"t": t, "ng": ng, "grp": i}, nontrivial=ref is not None)
            if ref is None:
                continue
            d = np.abs(res[g == i].astype(float) - ref[0])
            if (d > 0.5 + 1e-3).any():
                rep.violation("spi.grp", "gammastd_grp", {"x": x.tolist() if t <= 40 else None, "ng": ng, "grp": i}, f"max deviation {d.max():.3f} from the SciPy reference")


def replay(v, rep):
    c = v.get("case", {})
    if c.get("x") is not None:
        check(np.array(c["x"]), c["cal"], rep, c.get("dtype", "float64"), v.get("check", "spi").split(".nodata")[0])

"""C03 bounded stand-in: fixed-lambda smoothers vs the exact rational PLS / expectile curve."""
import numpy as np
import xarray as xr

import hdc.algo  # noqa: F401
from hdc.algo.ops import ws2dgu, ws2dpgu
from standin.smooth_common import compare_rounded, expectile_exact, gappy_series, leaves_int16, pls_exact, valid_mask

ND = -3000.0


def check_gu(y, miss, lam, rep, name="ws2dgu"):
    yy = y.copy(); yy[miss] = ND
    v = ~miss
    case = {"y": yy.tolist() if len(y) <= 40 else None, "n": len(y), "lmda": lam, "nvalid": int(v.sum())}
    rep.case(name, case, nontrivial=v.sum() > 1)
    got = ws2dgu(yy, lam, ND)
    if lam == 0 or v.sum() <= 1:
        if not np.array_equal(got, yy.astype("int16")):
            rep.violation(name + ".passthrough", "ws2dgu", case, "input not returned unchanged")
        return
    z = pls_exact(yy, lam, v.astype(int))
    if leaves_int16(z):
        return
    i = compare_rounded(got, z)
    if i is not None:
        rep.violation(name, "ws2dgu", case, f"cell {i}: got {int(got[i])}, rounded exact PLS curve {float(z[i]):.6f}")


def check_pgu(y, miss, lam, p, rep, name="ws2dpgu"):
    yy = y.copy(); yy[miss] = ND
    v = ~miss
    case = {"y": yy.tolist() if len(y) <= 40 else None, "n": len(y), "lmda": lam, "p": p, "nvalid": int(v.sum())}
    got = ws2dpgu(yy, lam, ND, p)
    if lam == 0 or v.sum() <= 1:
        rep.case(name, case, nontrivial=False)
        if not np.array_equal(got, yy.astype("int16")):
            rep.violation(name + ".passthrough", "ws2dpgu", case, "input not returned unchanged")
        return
    z, tie = expectile_exact(yy, lam, v, p)
    rep.case(name, case, nontrivial=not tie)
    if tie or leaves_int16(z):
        return   # an envelope decision sits on a tie / curve leaves int16: outside the claim
    i = compare_rounded(got, z)
    if i is not None:
        rep.violation(name, "ws2dpgu", case, f"cell {i}: got {int(got[i])}, rounded exact expectile curve {float(z[i]):.6f}")


def run(tier, rng, rep):
    sizes = [4, 5, 8, 20, 45] + ([120, 400] if tier == "thorough" else [100])
    lams = [1e-3, 0.1, 1.0, 10.0, 1e3, 1e5]
    rep.bound = f"n in {sizes}, lmda in {lams} and 0, p in (0,1), gap patterns none/random/runs/leading/trailing/all-but-k; exact rational oracle (ties excluded by the statement's tie rule); accessor whits with s / sgrid incl. -inf"
    rep.rule = "random int-valued series (seeded); non-trivial = >= 2 valid cells and no envelope tie; distinct = distinct (check, series, parameters)"
    for n in sizes:
        for kind in ("none", "random", "runs", "leading", "trailing", "all-but-2", "all-but-1", "all"):
            for lam in (lams if n <= 45 else [1e-3, 10.0, 1e5]):
                if tier == "quick" and rng.random() < 0.5 and n > 8:
                    continue
                y, miss = gappy_series(rng, n, kind)
                check_gu(y, miss, lam, rep)
                if n <= 100:
                    check_pgu(y, miss, lam, float(rng.choice([0.05, 0.5, 0.9, 0.95])), rep)
                    if n <= 20:
                        check_pgu(y, miss, lam, 0.5, rep, "ws2dpgu.p05")
        y, miss = gappy_series(rng, n, "random")
        check_gu(y, miss, 0.0, rep, "ws2dgu.lmda0")
        check_pgu(y, miss, 0.0, 0.9, rep, "ws2dpgu.lmda0")
    # accessor: constant s, per-pixel sgrid (incl. -inf), with and without p, dims orders
    for _ in range(3 if tier == "quick" else 12):
        n = int(rng.integers(5, 30))
        cube = rng.integers(0, 9000, (n, 2, 2)).astype("int16")
        cube[rng.random(cube.shape) < 0.2] = int(ND)
        da = xr.DataArray(cube, dims=("time", "y", "x"))
        da["time"] = np.array([np.datetime64("2001-01-01") + np.timedelta64(int(k) * 10, "D") for k in range(n)])
        sg = xr.DataArray(np.array([[1.0, -np.inf], [0.0, 2.5]]), dims=("y", "x"))
        da = da.assign_coords(y=[0, 1], x=[0, 1]); sg = sg.assign_coords(y=[0, 1], x=[0, 1])
        for order in (("time", "y", "x"), ("y", "x", "time"), ("y", "time", "x")):
            d2 = da.transpose(*order)
            for p in (None, 0.9, 0.5):
                for mode in ("s", "sg", "sgT"):
                    rep.case("accessor.whits", {"n": n, "order": list(order), "p": p, "mode": mode})
                    # sgT: the same per-pixel sgrid handed over with its dims in the other order (alignment is by name)
                    res = d2.hdc.whit.whits(ND, s=10.0, p=p) if mode == "s" else d2.hdc.whit.whits(ND, sg=(sg if mode == "sg" else sg.transpose("x", "y")), p=p)
                    res = res.transpose("y", "x", "time").values
                    for r in range(2):
                        for c in range(2):
                            lam = 10.0 if mode == "s" else float(10 ** sg.values[r, c])
                            px = cube[:, r, c].astype("float64")
                            want = (ws2dpgu(px, lam, ND, p) if p else ws2dgu(px, lam, ND))
                            if not np.array_equal(res[r, c], want):
                                rep.violation("accessor.whits", "WhittakerSmoother.whits", {"n": n, "order": list(order), "p": p, "mode": mode, "pixel": [r, c]},
                                              "accessor result differs from the kernel at lambda = 10**sg")
                            if lam == 0 and not np.array_equal(res[r, c], cube[:, r, c]):
                                rep.violation("accessor.whits.lmda0", "WhittakerSmoother.whits", {"pixel": [r, c]}, "sg=-inf did not return the input")


def replay(v, rep):
    c = v.get("case", {})
    if c.get("y") is None:
        rep.notes.append("re-run with the same VERIF_SEED")
        return
    y = np.array(c["y"], dtype="float64"); miss = y == ND
    if "p" in c and c["p"] is not None:
        check_pgu(y, miss, c["lmda"], c["p"], rep)
    else:
        check_gu(y, miss, c["lmda"], rep)

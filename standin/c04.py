"""C04 bounded stand-in: V-curve selection is optimal on the grid and self-consistent."""
import math

import numpy as np
import xarray as xr

import hdc.algo  # noqa: F401
from hdc.algo.ops import autocorr_1d, ws2dgu, ws2doptv, ws2doptvp, ws2doptvplc, ws2dpgu
from hdc.algo.ops.ws2doptvplc import ws2doptvplc_tyx
from standin.select_ref import first_strict_min, vcurve
from standin.smooth_common import gappy_series

ND = -3000.0


def check(y, miss, llas, p, rep, name, lc=None):
    yy = y.copy(); yy[miss] = ND
    w = (~miss).astype("float64")
    case = {"n": len(y), "nvalid": int(w.sum()), "srange": [float(llas[0]), float(llas[1] - llas[0]), len(llas)], "p": p, "lc": None if lc is None else str(lc),
            "y": yy.tolist() if len(y) <= 40 else None}
    rep.case(name, case)
    if lc is not None:
        out, lopt = ws2doptvplc(yy.astype("int16"), ND, p, lc)
    elif p is None:
        out, lopt = ws2doptv(yy, ND, llas)
    else:
        out, lopt = ws2doptvp(yy, ND, p, llas)
    lopt = float(lopt)
    y0 = np.where(miss, 0.0, y)
    v, lamids, fits, pens = vcurve(yy if True else y0, w, llas, p)
    if not np.all(np.isfinite(v)):
        return      # a perfect fit / zero roughness somewhere on the grid: log(0), outside the claim
    mids = [math.pow(10, x) for x in lamids]
    j = int(np.argmin([abs(lopt - mm) / mm for mm in mids]))
    if abs(lopt - mids[j]) > 1e-9 * mids[j]:
        rep.violation(name + ".midpoint", name.split(".")[0], case, f"lopt={lopt} is not the log10-midpoint of two consecutive srange entries (nearest {mids[j]})",
                      tags=["lc-nan"] if (lc is not None and lc != lc) else [])
        return
    k = first_strict_min(v)
    if j != k and not abs(v[j] - v[k]) <= 1e-9 * max(1.0, abs(v[k])):
        rep.violation(name + ".argmin", name.split(".")[0], case, f"selected grid cell {j} (v={v[j]:.6g}) but the V-curve minimum is at {k} (v={v[k]:.6g})",
                      tags=["lc-nan"] if (lc is not None and lc != lc) else [])
        return
    # self-consistency: band is exactly what the fixed-lambda smoother returns at the reported lambda
    fixed = ws2dgu(yy, lopt, ND) if p is None else ws2dpgu(yy, lopt, ND, p)
    if not np.array_equal(out, fixed):
        d = np.flatnonzero(out != fixed)
        rep.violation(name + ".band", name.split(".")[0], case, f"band differs from the fixed-lambda smoother at lopt={lopt} at cells {d.tolist()[:6]}")


def run(tier, rng, rep):
    rep.bound = "series 5..120 with >= 2 valid cells (+ 30 / 300 seasonal series with an end spike), sranges with 3..40 entries (any start, step 0.1..0.5), p in (0,1) or none, lc in [-1,1] and NaN, accessor whitsvc (sgrid float32, naming, lc raster)"
    rep.rule = "random series and sranges (seeded); distinct = distinct (check, series, srange, p, lc)"
    for it in range(40 if tier == "quick" else 300):
        n = int(rng.choice([5, 6, 9, 20, 50, 120]))
        y, miss = gappy_series(rng, n, rng.choice(["none", "random", "runs", "leading", "trailing"]), 0, 10000)
        if (~miss).sum() < 2:
            continue
        nl = int(rng.choice([3, 4, 8, 16, 40]))
        start = float(rng.uniform(-3, 1))
        step = float(rng.choice([0.1, 0.2, 0.5]))
        step = min(step, (8.0 - start) / (nl - 1))     # lambda stays within 10**[-6, 8], the range the core solver is specified for (C01)
        llas = start + step * np.arange(nl)
        check(y, miss, llas, None, rep, "optv")
        check(y, miss, llas, float(rng.choice([0.1, 0.5, 0.9, 0.95])), rep, "optvp")
    # smooth seasonal series with a spike on the first / last observation (own random stream): a criterion that loses a term at one
    # end of the series selects a different lambda only on such inputs (seeded change C06_3)
    rs = np.random.default_rng(404)
    for it in range(30 if tier == "quick" else 300):
        n = int(rs.integers(12, 60))
        y = np.rint(3000 + 800 * np.sin(np.arange(n) / 4.0 + rs.uniform(0, 6.28)) + rs.normal(0, 40, n))
        miss = rs.random(n) < 0.15
        end = -1 if it % 2 == 0 else 0
        miss[end] = False
        y[end] += 1500.0
        llas = np.arange(-2.0, 4.2, 0.2)
        check(y, miss, llas, None, rep, "optv")
        check(y, miss, llas, 0.9, rep, "optvp")
    # low-amplitude series on a grid that reaches lambda = 1e8 (roughness sums become tiny)
    for it in range(6 if tier == "quick" else 40):
        n = int(rng.choice([12, 24, 48]))
        y = rng.integers(1, int(rng.choice([7, 30, 300])), n).astype("float64")
        miss = np.zeros(n, bool)
        llas = np.arange(0, 8.5, 0.5)
        check(y, miss, llas, None, rep, "optv.lowamp")
        check(y, miss, llas, 0.9, rep, "optvp.lowamp")
    # autocorrelation-driven grid
    for it in range(24 if tier == "quick" else 150):
        n = int(rng.choice([5, 9, 20, 50]))
        y, miss = gappy_series(rng, n, rng.choice(["none", "random", "runs"]), 0, 10000)
        if (~miss).sum() < 2:
            continue
        lc = [0.9, 0.51, 0.5, 0.2, -0.7, 0.0, float("nan"), 1.0, -1.0][it % 9]
        grid = np.arange(-2, 1.2, 0.2) if lc > 0.5 else np.arange(0, 3.2, 0.2)       # "0..3.0 elsewhere" (incl. NaN)
        yy = y.copy(); yy[miss] = ND
        out, lopt = ws2doptvplc(yy.astype("int16"), ND, 0.9, lc)
        case = {"n": n, "lc": str(lc), "y": yy.tolist() if n <= 40 else None}
        rep.case("optvplc.grid", case)
        mids = [math.pow(10, (grid[i] + grid[i + 1]) / 2) for i in range(len(grid) - 1)]
        if min(abs(float(lopt) - mm) / mm for mm in mids) > 1e-9:
            rep.violation("optvplc.grid", "ws2doptvplc", case, f"lopt={float(lopt)} is not a midpoint of the grid prescribed for lc={lc} ({grid[0]}..{grid[-1]:.1f})",
                          tags=["lc-nan"] if lc != lc else [])
            continue
        check(y, miss, grid, 0.9, rep, "optvplc", lc=lc)
    # 3-d driver: grid from the pixel's own autocorrelation
    for it in range(3 if tier == "quick" else 12):
        t = int(rng.integers(8, 40))
        cube = rng.integers(0, 9000, (t, 2, 2)).astype("int16")
        cube[:, 0, 0] = (np.linspace(0, 3000, t) + rng.integers(-20, 20, t)).astype("int16")    # strongly autocorrelated pixel
        cube[rng.random(cube.shape) < 0.1] = int(ND)
        zz, lopts = ws2doptvplc_tyx(cube, 0.9, int(ND))
        for r in range(2):
            for c in range(2):
                px = cube[:, r, c]
                if (px != ND).sum() < 2:
                    continue
                lc = autocorr_1d(px, int(ND))
                o, l = ws2doptvplc(px, ND, 0.9, lc)
                rep.case("optvplc_tyx", {"t": t, "pixel": [r, c], "lc": float(lc)})
                if not np.array_equal(zz[:, r, c], o) or float(lopts[r, c]) != float(l):
                    rep.violation("optvplc_tyx", "ws2doptvplc_tyx", {"t": t, "pixel": [r, c], "lc": float(lc)}, f"3-d driver differs from the gufunc with the pixel's own lc (lopt {lopts[r, c]} vs {float(l)})")
    # accessor
    t = 20
    cube = rng.integers(0, 9000, (t, 2, 2)).astype("int16")
    da = xr.DataArray(cube, dims=("time", "y", "x"))
    da["time"] = np.array([np.datetime64("2001-01-01") + np.timedelta64(int(k) * 10, "D") for k in range(t)])
    srange = np.arange(-1, 2.2, 0.2)
    for p in (None, 0.9, 0.5, 0.1):
        ds = da.hdc.whit.whitsvc(nodata=ND, srange=srange, p=p).transpose("time", "y", "x")
        rep.case("accessor.whitsvc", {"p": p})
        for r in range(2):
            for c in range(2):
                px = cube[:, r, c].astype("float64")
                o, l = (ws2doptv(px, ND, srange) if p is None else ws2doptvp(px, ND, p, srange))
                if "band" not in ds or "sgrid" not in ds or ds.sgrid.dtype != np.float32 or not np.array_equal(ds.band.values[:, r, c], o) \
                        or ds.sgrid.values[r, c] != np.float32(np.log10(float(l))):
                    rep.violation("accessor.whitsvc", "WhittakerSmoother.whitsvc", {"p": p, "pixel": [r, c]}, "band/sgrid differ from the kernel (sgrid must be log10(lopt) as float32)")
    lcr = xr.DataArray(np.array([[0.9, 0.2], [np.nan, 0.6]]), dims=("y", "x"))
    ds = da.hdc.whit.whitsvc(nodata=ND, lc=lcr, p=0.9).transpose("time", "y", "x")
    rep.case("accessor.whitsvc.lc", {})
    for r in range(2):
        for c in range(2):
            o, l = ws2doptvplc(cube[:, r, c], ND, 0.9, float(lcr.values[r, c]))
            if not np.array_equal(ds.band.values[:, r, c], o):
                rep.violation("accessor.whitsvc.lc", "WhittakerSmoother.whitsvc", {"pixel": [r, c]}, "differs from the kernel")


def replay(v, rep):
    c = v.get("case", {})
    if c.get("y") is None:
        rep.notes.append("re-run with the same VERIF_SEED"); return
    yy = np.array(c["y"], dtype="float64"); miss = yy == ND
    if v.get("check", "").startswith("optvplc.grid"):
        lc = float(c["lc"])
        grid = np.arange(-2, 1.2, 0.2) if lc > 0.5 else np.arange(0, 3.2, 0.2)
        out, lopt = ws2doptvplc(yy.astype("int16"), ND, 0.9, lc)
        mids = [math.pow(10, (grid[i] + grid[i + 1]) / 2) for i in range(len(grid) - 1)]
        rep.case("optvplc.grid", c)
        if min(abs(float(lopt) - mm) / mm for mm in mids) > 1e-9:
            rep.violation("optvplc.grid", "ws2doptvplc", c, f"lopt={float(lopt)} not on the prescribed grid", tags=["lc-nan"] if lc != lc else [])
        return
    s0, st, nl = c["srange"]
    check(np.where(miss, 0.0, yy), miss, s0 + st * np.arange(nl), c["p"], rep, v.get("check", "optv").split(".")[0], None if c.get("lc") in (None, "None") else float(c["lc"]))

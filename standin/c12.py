"""C12 bounded stand-in: results do not depend on laziness, chunking, scheduler, dims order or thread count."""
import subprocess
import sys
import textwrap

import dask
import numba
import numpy as np
import pandas as pd
import xarray as xr

import hdc.algo  # noqa: F401
from hdc.algo.ops.ws2doptvplc import ws2doptvplc_tyx

ND = -3000


def cube(rng, t=24, ny=4, nx=3):
    data = rng.integers(1, 9000, (t, ny, nx)).astype("int16")
    data[rng.random(data.shape) < 0.1] = ND
    da = xr.DataArray(data, dims=("time", "y", "x"), attrs={"nodata": ND}, name="band")
    da["time"] = pd.date_range("2001-01-01", periods=t, freq="10D")
    da["y"] = np.arange(ny) * 1.0
    da["x"] = np.arange(nx) * 1.0
    return da


def ops(t):
    grp = (np.arange(t) % 3).astype("int16")
    srange = np.arange(-1, 2.2, 0.2)
    return {
        "whits.s": lambda d: d.hdc.whit.whits(ND, s=10.0),
        "whits.sg.p": lambda d: d.hdc.whit.whits(ND, sg=xr.DataArray(np.linspace(-1, 2, d.sizes["y"] * d.sizes["x"]).reshape(d.sizes["y"], d.sizes["x"]), dims=("y", "x"), coords={"y": d.y, "x": d.x}), p=0.9),
        "whitsvc": lambda d: d.hdc.whit.whitsvc(ND, srange=srange),
        "whitsvc.p": lambda d: d.hdc.whit.whitsvc(ND, srange=srange, p=0.9),
        "whitswcv": lambda d: d.hdc.whit.whitswcv(ND, srange=srange, robust=True),
        "whitswcv.p": lambda d: d.hdc.whit.whitswcv(ND, srange=srange, p=0.9, robust=False),
        "spi": lambda d: d.hdc.algo.spi(),
        "spi.groups": lambda d: d.hdc.algo.spi(groups=grp),
        "lroo": lambda d: (d > 4000).astype("uint8").hdc.algo.lroo(),
        "croo": lambda d: (d > 4000).astype("uint8").hdc.algo.croo(),
        "autocorr": lambda d: d.hdc.algo.autocorr(),
        "mktrend": lambda d: d.hdc.algo.mktrend(),
        "mean_grp": lambda d: d.hdc.algo.mean_grp(grp),
        "rolling.sum": lambda d: d.hdc.rolling.sum(3),
    }


def same(a, b):
    if isinstance(a, xr.Dataset):
        return set(a.data_vars) == set(b.data_vars) and all(same(a[k], b[k]) for k in a.data_vars)
    b = b.transpose(*a.dims) if set(a.dims) == set(b.dims) else b
    return a.dims == b.dims and a.dtype == b.dtype and np.array_equal(a.values, b.values, equal_nan=True) and \
        all(np.array_equal(a[c].values, b[c].values) for c in a.dims if c in a.coords and c in b.coords)


def run(tier, rng, rep):
    rep.bound = "every accessor operation x {numpy, dask} x chunkings of y/x (single chunk, 1-pixel, ragged) x schedulers (synchronous, threads 1/4/16) x dims orders (time first/last/middle); pixel permutations; prange kernel with 1/4/16 threads; chunked time refused; 8 threads racing the first call of lazily compiled kernels (fresh subprocess)"
    rep.rule = "one seeded cube per configuration; distinct = distinct (operation, configuration)"
    import warnings
    warnings.simplefilter("ignore")
    da = cube(rng)
    t = da.sizes["time"]
    table = ops(t)
    chunkings = [{"y": -1, "x": -1}, {"y": 1, "x": 1}, {"y": (3, 1), "x": (1, 2)}]
    scheds = [("synchronous", {}), ("threads", {"num_workers": 4})] + ([("threads", {"num_workers": 1}), ("threads", {"num_workers": 16})] if tier == "thorough" else [])
    for name, fn in table.items():
        eager = fn(da)
        eager = eager.compute() if hasattr(eager, "compute") else eager
        # dims order
        for order in (("y", "x", "time"), ("y", "time", "x")):
            if name in ("autocorr",) and order[1] == "time":
                pass
            rep.case(name + ".dims", {"order": list(order)})
            try:
                r = fn(da.transpose(*order))
                r = r.compute() if hasattr(r, "compute") else r
                if not same(eager, r):
                    rep.violation(name + ".dims", name, {"order": list(order)}, "values/dtype change with the order of dimensions")
            except Exception as exc:
                rep.violation(name + ".dims", name, {"order": list(order)}, f"{type(exc).__name__}: {exc}")
        # laziness / chunking / scheduler
        for ch in chunkings:
            for sname, skw in scheds:
                cfg = {"chunks": {k: (list(v) if isinstance(v, tuple) else v) for k, v in ch.items()}, "scheduler": sname, **skw}
                rep.case(name + ".dask", cfg)
                try:
                    lazy = fn(da.chunk({"time": -1, **ch}))
                    with dask.config.set(scheduler=sname, **skw):
                        r = lazy.compute()
                    if not same(eager, r):
                        rep.violation(name + ".dask", name, cfg, "dask-backed result differs from the in-memory result (values, dims, coords or dtype)")
                except Exception as exc:
                    rep.violation(name + ".dask", name, cfg, f"{type(exc).__name__}: {str(exc)[:200]}")
        # chunked time: refused (or handled identically)
        rep.case(name + ".chunked_time", {})
        try:
            r = fn(da.chunk({"time": 5}))
            r = r.compute() if hasattr(r, "compute") else r
            if not same(eager, r):
                rep.violation(name + ".chunked_time", name, {}, "a chunked time axis was accepted and computed something else")
        except (ValueError, NotImplementedError):
            pass
        except Exception as exc:
            rep.violation(name + ".chunked_time", name, {}, f"unexpected {type(exc).__name__}: {str(exc)[:200]}")
        # pixel permutation
        if name not in ("whits.sg.p",):
            perm_y = rng.permutation(da.sizes["y"])
            rep.case(name + ".pixels", {"perm": perm_y.tolist()})
            r = fn(da.isel(y=perm_y).assign_coords(y=da.y))
            r = r.compute() if hasattr(r, "compute") else r
            e = eager.isel(y=perm_y).assign_coords(y=da.y)
            if not same(e, r):
                rep.violation(name + ".pixels", name, {"perm": perm_y.tolist()}, "permuting pixels does not permute the results")
    # zonal: numpy vs dask, time chunking allowed
    zones = xr.DataArray(rng.integers(0, 3, (da.sizes["y"], da.sizes["x"])), dims=("y", "x"), attrs={"nodata": 255})
    e = da.hdc.zonal.mean(zones, [0, 1, 2])
    for ch in ({"time": 1}, {"time": 7}, {"time": -1}):
        rep.case("zonal.dask", {k: v for k, v in ch.items()})
        r = da.chunk({**ch, "y": -1, "x": -1}).hdc.zonal.mean(zones.chunk(), [0, 1, 2]).compute()
        if not same(e, r):
            rep.violation("zonal.dask", "ZonalStatistics.mean", ch, "dask result differs")
    # prange kernel: bit-identical for every thread count
    tyx = cube(rng, 30, 6, 5).values
    ref = None
    for nt in (1, 4, 16):
        if nt > numba.config.NUMBA_NUM_THREADS:
            continue
        numba.set_num_threads(nt)
        rep.case("prange.threads", {"threads": nt})
        zz, lo = ws2doptvplc_tyx(tyx, 0.9, ND)
        if ref is None:
            ref = (zz.copy(), lo.copy())
        elif not (np.array_equal(ref[0], zz) and np.array_equal(ref[1], lo)):
            rep.violation("prange.threads", "ws2doptvplc_tyx", {"threads": nt}, "result differs from the single-thread result")
    numba.set_num_threads(numba.config.NUMBA_NUM_THREADS)
    # concurrent first use of lazily compiled kernels (fresh interpreter, 8 threads)
    if tier == "thorough" or True:
        code = textwrap.dedent('''
            import threading, numpy as np, sys
            from hdc.algo.ops import ws2dgu, lroo, autocorr
            from hdc.algo.ops.zonal import do_mean
            y = np.arange(20.0) * 3 % 17
            res, errs = [], []
            def work():
                try:
                    res.append((ws2dgu(y, 10.0, -3000.0).tolist(), int(lroo((y > 5).astype("uint8"))), float(autocorr(y.reshape(1, 1, -1))[0, 0]),
                                do_mean(y.reshape(1, 4, 5), np.zeros((4, 5), dtype="int64"), 1, -3000.0, 255).tolist()))
                except Exception as exc:
                    errs.append(repr(exc))
            th = [threading.Thread(target=work) for _ in range(8)]
            [t.start() for t in th]; [t.join() for t in th]
            ok = not errs and len(res) == 8 and all(r == res[0] for r in res)
            print("RACE-OK" if ok else "RACE-FAIL " + repr(errs[:2]))
        ''')
        rep.case("lazycompile.race", {"threads": 8})
        p = subprocess.run([sys.executable, "-c", code], capture_output=True, text=True, timeout=600)
        if "RACE-OK" not in p.stdout:
            rep.violation("lazycompile.race", "lazycompile", {"threads": 8}, (p.stdout + p.stderr)[-400:])


def replay(v, rep):
    rep.notes.append("re-run the stand-in with the same VERIF_SEED (configurations are enumerated deterministically)")

"""Stand-in runner (under /venv/bin/python):  run.py <PID> --tier T --seed S --out FILE [--replay FILE]"""
import argparse
import hashlib
import importlib
import json
import os
import sys
import time
import traceback

HERE = os.path.dirname(os.path.abspath(__file__))
sys.path.insert(0, os.path.dirname(HERE))

import numpy as np


def tolist(x):
    if isinstance(x, np.ndarray):
        return x.tolist()
    if isinstance(x, (np.integer,)):
        return int(x)
    if isinstance(x, (np.floating,)):
        return float(x)
    if isinstance(x, dict):
        return {k: tolist(v) for k, v in x.items()}
    if isinstance(x, (list, tuple)):
        return [tolist(v) for v in x]
    return x


class Report:
    def __init__(self, tier, seed):
        self.tier, self.seed = tier, seed
        self.evaluations = 0
        self.distinct = set()
        self.violations = []
        self.samples = []
        self.checks = {}
        self.notes = []
        self.bound = ""
        self.rule = ""
        self.t0 = time.time()
        self.last = None

    def case(self, check, case, nontrivial=True):
        """count one evaluated case"""
        self.evaluations += 1
        self.last = (check, case)
        self.checks[check] = self.checks.get(check, 0) + 1
        if nontrivial:
            h = hashlib.sha1(json.dumps(tolist(case), sort_keys=True, default=str).encode()).hexdigest()
            self.distinct.add((check, h))
        if len(self.samples) < 6 and self.checks[check] in (1, 7):
            self.samples.append({"check": check, "case": _short(tolist(case))})

    def violation(self, check, func, case, what, tags=()):
        # at most 3 per check are kept
        if sum(1 for v in self.violations if v["check"] == check) >= 3:
            return
        self.violations.append({"check": check, "func": func, "case": tolist(case), "what": what, "tags": list(tags)})

    def dump(self, path, error=None):
        res = {"evaluations": self.evaluations, "distinct_nontrivial": len(self.distinct), "violations": self.violations,
               "samples": self.samples, "checks": self.checks, "notes": self.notes, "bound": self.bound, "rule": self.rule,
               "label": "bounded"}
        if error:
            res["error"] = error
        with open(path, "w") as fh:
            json.dump(res, fh, default=str)


def _short(x, n=40):
    if isinstance(x, list) and len(x) > n:
        return x[:n] + [f"... ({len(x)} items)"]
    if isinstance(x, dict):
        return {k: _short(v, n) for k, v in x.items()}
    return x


def main():
    ap = argparse.ArgumentParser()
    ap.add_argument("pid")
    ap.add_argument("--tier", default="quick")
    ap.add_argument("--seed", type=int, default=0)
    ap.add_argument("--out", required=True)
    ap.add_argument("--replay")
    a = ap.parse_args()
    rep = Report(a.tier, a.seed)
    try:
        mod = importlib.import_module("standin." + a.pid.lower())
        rng = np.random.default_rng(a.seed)
        if a.replay:
            with open(a.replay) as fh:
                rp = json.load(fh)
            v = rp.get("input") or {}
            mod.replay(v, rep)
        else:
            mod.run(a.tier, rng, rep)
        rep.dump(a.out)
    except (TypeError, KeyError, NameError, AttributeError, ImportError):
        # most likely the stand-in itself (or an interface it relies on) is broken: a checker error, not a verdict
        rep.dump(a.out, error=traceback.format_exc())
    except Exception as exc:
        # the code under test raised on an explored input (IndexError / ZeroDivisionError / AssertionError / ValueError / a Numba
        # compilation error ...): the exploration found an input on which the operation does not deliver a result at all
        tb = traceback.format_exc()
        check, case = rep.last if rep.last else (a.pid.lower(), {})
        rep.violations.insert(0, {"check": f"{check}.exception", "func": None, "case": tolist(case),
                                  "what": f"the code under test raised {type(exc).__name__}: {str(exc)[:200]} (last case counted before the call; traceback tail: {tb[-600:]})",
                                  "tags": ["exception"]})
        rep.dump(a.out)


if __name__ == "__main__":
    main()

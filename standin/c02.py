"""C02 bounded stand-in: missing observations carry zero weight in every smoother variant."""
import numpy as np

from hdc.algo.ops import ws2dgu, ws2doptv, ws2doptvp, ws2doptvplc, ws2dpgu, ws2dwcv, ws2dwcvp
from standin.smooth_common import compare_rounded, gappy_series, leaves_int16, pls_exact

LL = np.arange(-1.0, 3.2, 0.2)
LLG = np.arange(-1.8, 4.2, 0.2)

# name -> (callable(y, nodata) -> (out, lopt or None), accepts NaN/inf as missing, minimum valid count)
VARIANTS = {
    "fixed": (lambda y, nd: (ws2dgu(y, 100.0, nd), None), True, 2),
    "asym": (lambda y, nd: (ws2dpgu(y, 100.0, nd, 0.9), None), True, 2),
    "vcurve": (lambda y, nd: ws2doptv(y, nd, LL), False, 2),
    "vcurve-asym": (lambda y, nd: ws2doptvp(y, nd, 0.9, LL), False, 2),
    "vcurve-lc": (lambda y, nd: ws2doptvplc(y.astype("int16"), nd, 0.9, 0.3), False, 2),
    "gcv": (lambda y, nd: ws2dwcv(y, nd, LLG, False), True, 5),
    "gcv-robust": (lambda y, nd: ws2dwcv(y, nd, LLG, True), True, 5),
    "gcv-asym": (lambda y, nd: ws2dwcvp(y, nd, 0.9, LLG, False), True, 5),
    "gcv-asym-robust": (lambda y, nd: ws2dwcvp(y, nd, 0.9, LLG, True), True, 5),
}


def encodings(y, miss, nan_ok, int_only):
    """(label, y_encoded, nodata)"""
    valid = y[~miss]
    lo, hi = (valid.min(), valid.max()) if len(valid) else (0, 1)
    inside = None
    for cand in range(int(lo) + 1, int(hi)):
        if cand not in valid:
            inside = float(cand)
            break
    encs = [("below", -3000.0), ("above", 30000.0)]
    if inside is not None:
        encs.append(("inside", inside))
    for lab, nd in encs:
        yy = y.copy(); yy[miss] = nd
        yield lab, yy, nd
    if nan_ok and not int_only:
        for lab, val in (("nan", np.nan), ("+inf", np.inf), ("-inf", -np.inf)):
            yy = y.copy(); yy[miss] = val
            yield lab, yy, -3000.0
        yy = y.copy()
        idx = np.flatnonzero(miss)
        for k, i in enumerate(idx):
            yy[i] = [np.nan, -3000.0, np.inf][k % 3]
        yield "mixed", yy, -3000.0


def check(name, y, miss, rep):
    fn, nan_ok, need = VARIANTS[name]
    nvalid = int((~miss).sum())
    base = None
    for lab, yy, nd in encodings(y, miss, nan_ok, name == "vcurve-lc"):
        case = {"variant": name, "encoding": lab, "n": len(y), "nvalid": nvalid, "y": yy.tolist() if len(y) <= 40 else None, "nodata": nd}
        rep.case(name, case, nontrivial=bool(miss.any()))
        out, lopt = fn(yy, nd)
        out = np.asarray(out)
        if nvalid < need:
            # returned unchanged with a reported lambda of 0 (cells that hold NaN/inf have no int16 value: skipped)
            fin = np.isfinite(yy)
            if not np.array_equal(out[fin], yy[fin].astype("int16")) or (lopt is not None and float(lopt) != 0.0):
                rep.violation(name + ".passthrough", name, case, f"pixel with {nvalid} valid cells: out={out.tolist()[:8]} lopt={lopt}")
            continue
        if base is None:
            base = (lab, out, lopt)
            continue
        if not np.array_equal(out, base[1]) or (lopt is not None and float(lopt) != float(base[2])):
            d = np.flatnonzero(out != base[1])
            rep.violation(name + ".placeholder", name, case,
                          f"result depends on the placeholder: encoding '{lab}' vs '{base[0]}' differ at cells {d.tolist()[:6]} (lopt {lopt} vs {base[2]}); out={out.tolist()[:8]}",
                          tags=["nan-inf"] if lab in ("nan", "+inf", "-inf", "mixed") else (["robust"] if "robust" in name else []))
            return
    # zero weight through every robust round: an independent re-statement of the robust scheme in which the missing cells never
    # carry weight must give the same band (a missing cell re-armed by a later re-weighting is not a placeholder dependence)
    if "robust" in name and base is not None and nvalid >= need and miss.any():
        from standin.c05 import robust_reference
        try:
            refband, reflopt = robust_reference(np.where(miss, 0.0, y), (~miss).astype("float64"), LLG, 0.9 if "asym" in name else None)
            out0, lopt0 = base[1].astype(float), float(base[2])
            if abs(reflopt - lopt0) <= 1e-9 * reflopt and np.abs(refband).max() < 32000 and np.abs(out0 - refband).max() > 1:
                d = np.flatnonzero(np.abs(out0 - refband) > 1)
                rep.violation(name + ".zero_weight", name, {"variant": name, "encoding": base[0], "n": len(y), "nvalid": nvalid, "nodata": -3000.0,
                                                            "y": np.where(miss, -3000.0, y).tolist() if len(y) <= 40 else None},
                              f"band differs from the robust scheme with zero weight on the missing cells at cells {d.tolist()[:6]} (e.g. {int(out0[d[0]])} vs {refband[d[0]]:.0f}); missing: {np.flatnonzero(miss).tolist()[:8]}",
                              tags=["robust"])
        except ZeroDivisionError:
            pass
    # gap-filled value of the fitted curve (fixed-lambda variant has a closed form)
    if name == "fixed" and nvalid >= 2 and base is not None:
        z = pls_exact(np.where(miss, 0.0, y), 100.0, (~miss).astype(int))
        if not leaves_int16(z):
            i = compare_rounded(base[1], z)
            if i is not None:
                rep.violation("fixed.gapfill", "ws2dgu", {"n": len(y), "y": np.where(miss, -3000.0, y).tolist() if len(y) <= 40 else None}, f"cell {i}: {int(base[1][i])} vs curve {float(z[i]):.4f}")


def run(tier, rng, rep):
    sizes = [4, 6, 12, 30] + ([90, 200] if tier == "thorough" else [60])
    rep.bound = f"lengths {sizes}, |values| <= 10000, gap patterns isolated/runs/leading/trailing/all-but-k, placeholders below/inside/above the data range, NaN, +-inf, mixed; all eight variants (+ robust)"
    rep.rule = "each (series, gap pattern) is evaluated under every placeholder encoding and compared with the first one; non-trivial = at least one missing cell; distinct = distinct (variant, encoding, series)"
    for n in sizes:
        for kind in ("none", "random", "runs", "leading", "trailing", "all-but-2", "all-but-1", "all", "all-but-5", "all-but-4"):
            for _ in range(1 if tier == "quick" else 4):
                y, miss = gappy_series(rng, n, kind if not kind.startswith("all-but-") or kind in ("all-but-2", "all-but-1") else "random", 0, 10000)
                if kind in ("all-but-5", "all-but-4"):
                    k = int(kind[-1])
                    if n < k:
                        continue
                    miss[:] = True; miss[rng.choice(n, k, replace=False)] = False
                for name in VARIANTS:
                    check(name, y, miss, rep)
                if kind in ("random", "runs", "leading"):
                    # signed data: the fitted curve is negative at some gaps (the internal fill value 0 is then above the curve)
                    y, miss = gappy_series(rng, n, kind, -2500, 2500)
                    for name in VARIANTS:
                        check(name, y, miss, rep)


def replay(v, rep):
    c = v.get("case", {})
    if c.get("y") is None:
        rep.notes.append("re-run with the same VERIF_SEED")
        return
    yy = np.array(c["y"], dtype="float64")
    miss = ~np.isfinite(yy) | (yy == c["nodata"])
    y = np.where(miss, 0.0, yy)
    check(c["variant"], y, miss, rep)

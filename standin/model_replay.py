"""Replay a solver model (concrete arguments extracted from a refuted obligation) on the real compiled
kernel under NUMBA_BOUNDSCHECK=1:   model_replay.py <replay.json> <out.json>

Reports IndexError (index obligations), ZeroDivisionError (div obligations) and output elements that
differ between two differently pre-filled output buffers (written obligations)."""
import importlib.util
import json
import os
import sys

os.environ["NUMBA_BOUNDSCHECK"] = "1"
import numpy as np  # noqa: E402

DT = {"i2": "int16", "i4": "int32", "i8": "int64", "u1": "uint8", "i1": "int8", "f4": "float32", "f8": "float64", "real": "float64", "int": "int64",
      "int16": "int16", "int32": "int32", "float32": "float32", "float64": "float64", "bool": "bool", "b1": "bool"}


def load_function(key):
    path, qual = key.split("::")
    repo = os.environ.get("HDCV_REPO", "/repo")
    modname = path[:-3].replace("/", ".")
    sys.path.insert(0, repo)
    mod = __import__(modname, fromlist=["x"])
    obj = mod
    for part in qual.split("."):
        obj = getattr(obj, part)
    return obj


def build(arg, fill=None):
    if "const" in arg:
        v = arg["const"]
        return {"float32": np.float32, "float64": np.float64}.get(v, v) if isinstance(v, str) else v
    base = arg["type"].split("[")[0].strip()
    dt = DT.get(base, "float64")
    if "shape" in arg:
        cells = [0 if c is None else c for c in arg["cells"]]
        a = np.array(cells, dtype="float64").reshape(arg["shape"]).astype(dt)
        if fill is not None:
            a[...] = fill
        return a
    v = arg.get("value")
    if v is None:
        v = 0
    return bool(v) if dt == "bool" else (float(v) if dt.startswith("float") else int(v))


def main():
    rp = json.load(open(sys.argv[1]))
    mi = rp["model_input"]
    key = rp["function_key"]
    outs = rp.get("outputs", [])
    fn = load_function(key)
    res = {"reproduced": False, "what": ""}
    results = []
    try:
        for fill in (7, -5):
            args = [build(mi[p], fill if p in outs else None) for p in rp["param_order"]]
            fn(*args)
            results.append([a.copy() for p, a in zip(rp["param_order"], args) if p in outs])
        if outs and any(not np.array_equal(a, b, equal_nan=True) for a, b in zip(*results)):
            res = {"reproduced": True, "what": "an output element is not written: two differently pre-filled output buffers differ after the call"}
    except IndexError as exc:
        res = {"reproduced": True, "what": f"IndexError under NUMBA_BOUNDSCHECK=1: {exc}"}
    except ZeroDivisionError as exc:
        res = {"reproduced": True, "what": f"ZeroDivisionError: {exc}"}
    except Exception as exc:
        res = {"reproduced": False, "what": f"{type(exc).__name__}: {exc}"}
    json.dump(res, open(sys.argv[2], "w"))


if __name__ == "__main__":
    main()

"""C10 bounded stand-in: Mann-Kendall against an independent exact implementation; exhaustive over all
rank patterns (with ties) up to length 6 (7 in thorough); symmetries."""
import itertools
import math
from fractions import Fraction

import numpy as np
import xarray as xr
from scipy.special import ndtri

import hdc.algo  # noqa: F401
from hdc.algo.ops.stats import _mann_kendall_trend_gu, _mann_kendall_trend_gu_nd, mann_kendall_trend_1d, mk_sens_slope


def reference(x):
    n = len(x)
    s = sum((x[j] > x[i]) - (x[j] < x[i]) for i in range(n) for j in range(i + 1, n))
    tau = s / (n * (n - 1) / 2)
    ties = {}
    for v in x:
        ties[v] = ties.get(v, 0) + 1
    var = Fraction(n * (n - 1) * (2 * n + 5) - sum(t * (t - 1) * (2 * t + 5) for t in ties.values()), 18)
    if s > 0:
        z = (s - 1) / math.sqrt(var) if var > 0 else float("nan")
    elif s < 0:
        z = (s + 1) / math.sqrt(var) if var > 0 else float("nan")
    else:
        z = 0.0
    p = 2 * (1 - 0.5 * (1 + math.erf(abs(z) / math.sqrt(2))))
    h = abs(z) > ndtri(1 - 0.05 / 2)
    slopes = sorted(Fraction(int(x[j]) - int(x[i]), j - i) if float(x[j]).is_integer() and float(x[i]).is_integer() else (x[j] - x[i]) / (j - i)
                    for i in range(n) for j in range(i + 1, n))
    m = len(slopes)
    med = slopes[m // 2] if m % 2 else (slopes[m // 2 - 1] + slopes[m // 2]) / 2
    trend = (1 if z > 0 else -1 if z < 0 else 0) if h else 0
    return s, tau, z, p, h, float(med), trend


def check(x, rep, name="mktrend", near_tol=1e-9):
    x = np.asarray(x)
    case = {"x": x.tolist() if len(x) <= 40 else None, "n": int(len(x)), "dtype": str(x.dtype)}
    rep.case(name, case)
    tau, p, slope, trend = mann_kendall_trend_1d(x)
    s, rtau, z, rp, h, rslope, rtrend = reference(x.tolist())
    tie_h = abs(abs(z) - ndtri(0.975)) < 1e-9     # significance decision on a floating-point tie
    rel = 1e-5 if x.dtype == np.float32 else 1e-9      # float32 inputs: single-precision accuracy
    ok = abs(tau - rtau) < 1e-12 and abs(p - rp) < 1e-9 and abs(slope - rslope) < rel * max(1, abs(rslope)) and (trend == rtrend or tie_h)
    if not ok:
        rep.violation(name, "mann_kendall_trend_1d", case, f"got (tau,p,slope,trend)=({tau},{p},{slope},{trend}); reference ({rtau},{rp},{rslope},{rtrend})")
    return tau, p, slope, trend


def symmetries(x, rep):
    x = np.asarray(x, dtype="float64")
    t0 = mann_kendall_trend_1d(x)
    case = {"x": x.tolist()}
    rep.case("mktrend.symmetry", case)
    g = np.exp(x / 10.0) + 3         # strictly increasing transform
    t1 = mann_kendall_trend_1d(g)
    if not (abs(t0[0] - t1[0]) < 1e-12 and abs(t0[1] - t1[1]) < 1e-12 and t0[3] == t1[3]):
        rep.violation("mktrend.symmetry.monotone", "mann_kendall_trend_1d", case, f"{t0} vs {t1} after a strictly increasing transform")
    for nm, y in (("negation", -x), ("reversal", x[::-1].copy())):
        t2 = mann_kendall_trend_1d(y)
        if not (abs(t0[0] + t2[0]) < 1e-12 and abs(t0[1] - t2[1]) < 1e-12 and t0[3] == -t2[3]):
            rep.violation("mktrend.symmetry." + nm, "mann_kendall_trend_1d", case, f"{t0} vs {t2} after {nm}")
    a, b = 3.0, -7.0
    t3 = mann_kendall_trend_1d(a * x + b)
    if abs(t3[2] - a * t0[2]) > 1e-9 * max(1, abs(t0[2])):
        rep.violation("mktrend.symmetry.slope", "mk_sens_slope", case, f"slope {t0[2]} -> {t3[2]} under x -> 3x-7")


def run(tier, rng, rep):
    LMAX = 7 if tier == "thorough" else 6
    rep.bound = f"all rank patterns with ties up to length {LMAX} (exhaustive), random int16/float32 series up to 200, symmetries, nodata pixels, accessor"
    rep.rule = "rank patterns = all sequences over 0..n-1 that use a prefix of the ranks; distinct = distinct (check, series)"
    for n in range(2, LMAX + 1):
        for pat in itertools.product(range(n), repeat=n):
            if set(pat) != set(range(max(pat) + 1)):
                continue
            check(np.array(pat, dtype="int16"), rep)
            if n <= 5:
                symmetries(pat, rep)
    for _ in range(60 if tier == "quick" else 600):
        n = int(rng.integers(2, 200))
        x = rng.integers(-50, 50, n).astype("int16") if rng.random() < 0.5 else rng.normal(0, 1, n).astype("float32").round(1)
        check(x, rep, "mktrend.random")
        if n <= 40:
            symmetries(x.astype("float64"), rep)
    # int16 series whose pairwise differences exceed the int16 range
    for _ in range(10 if tier == "quick" else 100):
        n = int(rng.integers(4, 40))
        x = np.where(np.arange(n) < n // 2, -16000, 16500).astype("int16") + rng.integers(-400, 400, n).astype("int16")
        check(x, rep, "mktrend.widerange")
        check(x[::-1].copy(), rep, "mktrend.widerange")
    # nodata handling
    for n in (2, 5, 9):
        x = np.full(n, -9999, dtype="int16")
        rep.case("mktrend.all_nodata", {"n": n})
        tau, p, slope, trend = _mann_kendall_trend_gu_nd(x, -9999)
        if not (tau == -9999 and p == -9999 and slope == -9999 and trend == -2):
            rep.violation("mktrend.all_nodata", "_mann_kendall_trend_gu_nd", {"n": n}, f"{tau},{p},{slope},{trend}")
        y = rng.integers(0, 9, n).astype("int16")
        a = _mann_kendall_trend_gu(y); b = mann_kendall_trend_1d(y)
        if not np.allclose([float(v) for v in a], [float(v) for v in b], atol=1e-6):
            rep.violation("mktrend.gu", "_mann_kendall_trend_gu", {"y": y.tolist()}, f"{a} vs {b}")
    # accessor
    cube = rng.integers(0, 100, (12, 2, 2)).astype("int16")
    cube[:, 0, 0] = -9999
    da = xr.DataArray(cube, dims=("time", "y", "x"), attrs={"nodata": -9999})
    da["time"] = np.array([np.datetime64("2001-01-01") + np.timedelta64(int(k), "D") for k in range(12)])
    rep.case("accessor.mktrend", {})
    ds = da.hdc.algo.mktrend()
    if int(ds.trend.values[0, 0]) != -2 or float(ds.tau.values[0, 0]) != -9999:
        rep.violation("accessor.mktrend", "PixelAlgorithms.mktrend", {}, "all-nodata pixel not flagged -2 / nodata")
    ref = reference(cube[:, 1, 1].tolist())
    if abs(float(ds.tau.values[1, 1]) - ref[1]) > 1e-6 or int(ds.trend.values[1, 1]) != ref[6] or abs(float(ds.slope.values[1, 1]) - ref[5]) > 1e-5 or abs(float(ds.pvalue.values[1, 1]) - ref[3]) > 1e-6:
        rep.violation("accessor.mktrend", "PixelAlgorithms.mktrend", {"x": cube[:, 1, 1].tolist()}, "accessor differs from the reference")


def replay(v, rep):
    c = v.get("case", {})
    if c.get("x") is not None:
        check(np.array(c["x"], dtype=c.get("dtype", "float64")), rep, v.get("check", "mktrend").split(".")[0])

"""C11 bounded stand-in (exhaustive in the thorough tier, as the property's quantifier asks): Dekad calendar laws."""
import calendar
from datetime import date, datetime, timedelta

import numpy as np
import pandas as pd
import xarray as xr

import hdc.algo  # noqa: F401
from hdc.algo.dekad import Dekad

US = timedelta(microseconds=1)


def check_dekad(y, m, i, rep, light=False):
    """laws of one dekad (year y, month m, idx i)"""
    raw = 36 * y + 3 * (m - 1) + (i - 1)
    d = Dekad(raw)
    label = f"{y:04d}{m:02d}d{i}"
    dim = calendar.monthrange(y, m)[1]
    first = 1 + 10 * (i - 1)
    last = dim if i == 3 else 10 * i
    ok = (d.year == y and d.month == m and d.idx == i and d.yidx == 3 * (m - 1) + i and d.raw == raw and d.day == first
          and str(d) == label and Dekad(label) == d and Dekad(label).raw == raw and Dekad(d.raw) == d and hash(d) == hash(Dekad(label))
          and d.start_date == datetime(y, m, first) and Dekad(d.start_date).raw == raw)
    last_dekad = (y == 9999 and m == 12 and i == 3)
    if not last_dekad:
        nxt = d + 1
        ok = ok and d.end_date == datetime(y, m, last, 23, 59, 59, 999999) and d.end_date + US == nxt.start_date and d.ndays == last - first + 1 \
            and nxt.raw == raw + 1 and (nxt - d) == 1 and (nxt - 1) == d and d < nxt and nxt > d and d <= nxt and nxt >= d and d != nxt and not (d == nxt) \
            and (1 + d) == nxt and Dekad(d.end_date).raw == raw and d.date_range == (d.start_date, d.end_date)
        if i == 3:
            ok = ok and (nxt.month == (m % 12) + 1) and nxt.idx == 1 and nxt.year == (y + (m == 12))
    if not ok:
        rep.violation("dekad.laws", "Dekad", {"year": y, "month": m, "idx": i}, f"a law fails for dekad {label}: start={d.start_date} str={d} raw={d.raw} ymd=({d.year},{d.month},{d.idx}) yidx={d.yidx}")
    return ok


def check_day(dt, rep):
    """every instant of that day belongs to exactly the expected dekad"""
    y, m, dd = dt.year, dt.month, dt.day
    i = min(3, (dd - 1) // 10 + 1)
    raw = 36 * y + 3 * (m - 1) + (i - 1)
    for inst in (datetime(y, m, dd), datetime(y, m, dd, 23, 59, 59, 999999), date(y, m, dd)):
        d = Dekad(inst)
        ok = d.raw == raw
        if ok and not (y == 9999 and m == 12 and i == 3):
            t = inst if isinstance(inst, datetime) else datetime(y, m, dd)
            ok = d.start_date <= t <= d.end_date
        if not ok:
            rep.violation("dekad.membership", "Dekad.__init__", {"instant": str(inst)}, f"{inst} -> dekad raw {d.raw} ({d}), expected {raw}")
            return False
    return True


def run(tier, rng, rep):
    exhaustive = tier == "thorough"
    rep.bound = ("every dekad 0001-01-d1 .. 9999-12-d3 (359,964) and every day 0001-01-01 .. 9999-12-31 (3,652,059)" if exhaustive else
                 "every dekad of 1,200 years (boundary years 1, 2, 4, 100, 400, 1582, 1900, 2000, 9998, 9999 + 1990..2050 + random years) and every day of 130 of those years; accessor: 305 dates + 200 random intra-day instants + boundary instants of 3 years x 4 months")
    rep.rule = "calendar enumerated; distinct = distinct dekad / day; non-trivial = every case (all laws evaluated)"
    years_all = range(1, 10000)
    special = [1, 2, 3, 4, 5, 99, 100, 101, 400, 401, 1582, 1899, 1900, 1901, 1999, 2000, 2001, 2023, 2024, 2100, 9996, 9997, 9998, 9999]
    years_dk = list(years_all) if exhaustive else sorted(set(special + list(range(1990, 2051)) + [int(v) for v in rng.integers(1, 10000, 1100)]))
    years_day = list(years_all) if exhaustive else sorted(set(special + list(range(2019, 2026)) + [int(v) for v in rng.integers(1, 10000, 100)]))
    nd = 0
    for y in years_dk:
        tot = 0
        for m in range(1, 13):
            for i in (1, 2, 3):
                nd += 1
                if not check_dekad(y, m, i, rep):
                    break
            if y < 9999 or m < 12:
                tot = sum(Dekad(36 * y + 3 * (m - 1) + k).ndays for k in range(3))
                if tot != calendar.monthrange(y, m)[1]:
                    rep.violation("dekad.ndays", "Dekad.ndays", {"year": y, "month": m}, f"ndays sum {tot} != month length")
        if len(rep.violations) > 5:
            break
    rep.evaluations += nd
    rep.checks["dekad.laws"] = nd
    for k in range(0, nd, max(1, nd // 4000)):
        rep.distinct.add(("dekad.laws", k))
    ndays = 0
    for y in years_day:
        dt = date(y, 1, 1)
        end = date(y, 12, 31)
        while True:
            ndays += 1
            if not check_day(dt, rep):
                break
            if dt == end:
                break
            dt += timedelta(days=1)
        if len(rep.violations) > 5:
            break
    rep.evaluations += ndays
    rep.checks["dekad.membership"] = ndays
    for k in range(0, ndays, max(1, ndays // 4000)):
        rep.distinct.add(("dekad.membership", k))
    rep.samples.append({"check": "dekad.laws", "case": {"year": 2024, "month": 2, "idx": 3, "ndays": Dekad("202402d3").ndays}})
    # translations, order, hashing on random pairs
    for _ in range(3000 if not exhaustive else 30000):
        a = int(rng.integers(36, 36 * 9999)); n = int(rng.integers(-500, 500))
        if not (36 <= a + n < 36 * 10000 - 1):
            continue
        d = Dekad(a)
        rep.case("dekad.translation", {"raw": a, "n": n}, nontrivial=True) if _ < 20 else None
        e = d + n
        b = int(rng.integers(36, 36 * 9999)); f = Dekad(b)
        ok = (e - d) == n and (e - n) == d and (n + d) == e and isinstance(f - d, int) and (f - d) == b - a \
            and (d < f) == (a < b) and (d <= f) == (a <= b) and (d > f) == (a > b) and (d >= f) == (a >= b) and (d == f) == (a == b) \
            and (hash(d) == hash(Dekad(a))) and (d.start_date < f.start_date) == (a < b)
        if not ok:
            rep.violation("dekad.translation", "Dekad", {"raw": a, "n": n, "other": b}, "translation / order law fails")
            break
    # comparisons with str / int / datetime operands, label assertions
    d = Dekad("202105d2")
    rep.case("dekad.mixed", {})
    if not (d == "202105d2" and d == d.raw and d == datetime(2021, 5, 15) and d < "202105d3" and d > date(2021, 5, 10) and d <= 36 * 2021 + 13 and d >= "202105d2"):
        rep.violation("dekad.mixed", "Dekad", {}, "comparison with str/int/datetime operands")
    for bad in ("202113d1", "202100d1", "202105d4", "202105d0"):
        try:
            Dekad(bad)
            rep.violation("dekad.label_assert", "Dekad.__init__", {"label": bad}, "invalid label accepted")
        except AssertionError:
            pass
    # accessor: element-wise equal to the scalar class
    times = pd.DatetimeIndex([pd.Timestamp(int(y), int(m), int(dd)) for y, m, dd in zip(rng.integers(1700, 2200, 300), rng.integers(1, 13, 300), rng.integers(1, 29, 300))]
                             + [pd.Timestamp(2024, 2, 29), pd.Timestamp(2023, 12, 31), pd.Timestamp(2000, 1, 1), pd.Timestamp(2021, 1, 31), pd.Timestamp(2021, 3, 21)]
                             # intra-day instants, in particular the afternoon / last microsecond of the last day of a dekad and the first microsecond of the next one
                             + [pd.Timestamp(int(y), int(m), int(dd)) + pd.Timedelta(microseconds=int(us)) for y, m, dd, us in
                                zip(rng.integers(1700, 2200, 200), rng.integers(1, 13, 200), rng.integers(1, 29, 200), rng.integers(0, 86400 * 10 ** 6, 200))]
                             + [pd.Timestamp(yy, mm, dd) + pd.Timedelta(microseconds=us) for yy in (1900, 2021, 2024) for mm in (1, 2, 4, 12)
                                for dd in (1, 10, 11, 20, 21, 28, 29 if (mm != 2 or yy == 2024) else 28, 30 if mm != 2 else 28, 31 if mm in (1, 12) else 28)
                                for us in (1, 43200 * 10 ** 6, 66600 * 10 ** 6, 86400 * 10 ** 6 - 1)])
    da = xr.DataArray(np.arange(len(times)), dims=("time",), coords={"time": times})
    acc = da.time.dekad
    rep.case("accessor.dekad", {"n": len(times)})
    for k, ts in enumerate(times):
        dk = Dekad(ts.to_pydatetime())
        got = (int(acc.idx.values[k]), int(acc.yidx.values[k]), int(acc.ndays.values[k]), str(acc.label.values[k]), int(acc.raw.values[k]), int(acc.linspace.values[k]),
               pd.Timestamp(acc.start_date.values[k]).to_pydatetime(), pd.Timestamp(acc.end_date.values[k]).to_pydatetime())
        want = (dk.idx, dk.yidx, dk.ndays, str(dk), dk.raw, dk.yidx - 1, dk.start_date, dk.end_date)
        if got != want:
            rep.violation("accessor.dekad", "DekadPeriod", {"time": str(ts)}, f"{got} vs scalar class {want}")
            break


def replay(v, rep):
    c = v.get("case", {})
    if "idx" in c and "year" in c:
        check_dekad(c["year"], c["month"], c["idx"], rep); rep.case("dekad.laws", c)
    elif "instant" in c:
        rep.notes.append("re-run the stand-in: days are enumerated deterministically")

"""Independent float64 recomputation of the V-curve and GCV selection criteria (numpy), built on the
core solver (proved in C01) -- used by the C04/C05/C06 stand-ins."""
import math

import numpy as np

from hdc.algo.ops.ws2d import ws2d


def irls10(y, lam, w, p, z0=None):
    """at most 10 reweighting passes; returns (final curve, last iterate z)"""
    m = len(y)
    z = np.zeros(m) if z0 is None else z0.copy()
    ww = None
    for _ in range(10):
        wa = np.where(y > z, p, 1 - p)
        ww = w * wa
        znew = ws2d(y, lam, ww)
        if np.sum(np.abs(znew - z)) == 0.0:
            break
        z = znew.copy()
    return ws2d(y, lam, ww), z


def vcurve(y, w, llas, p=None):
    """returns (v, lamids, fits, pens); the asymmetric variant warm-starts each grid point from the previous iterate"""
    nl = len(llas)
    fits, pens = np.zeros(nl), np.zeros(nl)
    z = np.zeros(len(y))
    for i, ll in enumerate(llas):
        lam = math.pow(10, ll)
        if p is None:
            z = ws2d(y, lam, w)
        else:
            _, z = irls10(y, lam, w, p, z)      # the loop's own iterate (not the final solve) feeds the criterion
        f = 0.0
        for t in range(len(y)):
            f += math.pow(w[t] * (y[t] - z[t]), 2)
        d1 = np.diff(z)
        pen = 0.0
        for t in range(len(d1) - 1):
            pen += math.pow(d1[t + 1] - d1[t], 2)
        fits[i] = math.log(f) if f > 0 else -math.inf
        pens[i] = math.log(pen) if pen > 0 else -math.inf
    step = llas[1] - llas[0]
    v = np.array([math.sqrt((fits[i + 1] - fits[i]) ** 2 + (pens[i + 1] - pens[i]) ** 2) / (math.log(10) * step) for i in range(nl - 1)])
    lamids = np.array([(llas[i] + llas[i + 1]) / 2 for i in range(nl - 1)])
    return v, lamids, fits, pens


def first_strict_min(v):
    k = 0
    for i in range(1, len(v)):
        if v[i] < v[k]:
            k = i
    return k


def gcv_scores(y, w, llas):
    m = len(y)
    eig = -2 + 2 * np.cos(np.arange(m) * np.pi / m)
    eig[0] = 1e-15
    out = []
    for s in 10 ** llas:
        z = ws2d(y, s, w)
        gamma = w / (w + s * ((-1 * eig) ** 2))
        trh = gamma.sum()
        wsse = (((w ** 0.5) * (y - z)) ** 2).sum()
        out.append(wsse / (w.sum() * (1 - trh / w.sum()) ** 2))
    return np.array(out)

"""Development driver: verify one contract and print the obligations."""
import importlib, sys, time
sys.path.insert(0, "/verif")
from hdcv import spec, verify, smt
import contracts.base
for m in sys.argv[2:]:
    importlib.import_module(m)
key = sys.argv[1]
variant = "default"
if "@" in key:
    key, variant = key.split("@")
c = spec.REGISTRY[(key, variant)]
t0 = time.time()
r = verify.verify_portfolio(c)
print("error:", r.error, "paths:", r.paths, "gen time %.2f" % (time.time() - t0))
if r.ctx:
    smt.discharge(r.ctx.obls, timeout=int(__import__('os').environ.get('TO','8000')), use_cvc5=False)
    for o in r.ctx.obls:
        print(f"{o.verdict:12s} {o.time:6.2f}s {o.backend or '':6s} {o.id}   {o.detail[:300] if o.verdict not in ('discharged','covered') else ''}")
    print("assumed:", sorted(r.ctx.assumed))

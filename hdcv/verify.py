"""Function-level driver: entry state from the contract, symbolic execution of the real AST,
postcondition / frame / written obligations."""
import ast
import re
import traceback

import z3

from . import frontend, spec
from .engine import (sel, Arr, Ctx, Exec, NORMAL, Obl, Outcome, RAISE, RETURN, State, Tup, Unsupported, fresh, zbool, zint,
                     DTYPE_ALIASES, INT_RANGE)
from .frontend import BindingFailure


def parse_type(ty):
    ty = ty.strip()
    if ty == "None":
        return {"kind": "const", "value": None}
    m = re.match(r"^const\((.*)\)$", ty)
    if m:
        return {"kind": "const", "value": ast.literal_eval(m.group(1))}
    if ty.startswith("(") and ty.endswith(")"):
        return {"kind": "tuple", "items": [parse_type(t) for t in ty[1:-1].split(",")]}
    m = re.match(r"^(\w+)\[(.*)\]$", ty)
    if m:
        dims = []
        for d in m.group(2).split(","):
            d = d.strip()
            dims.append(int(d) if re.match(r"^-?\d+$", d) else d)
        return {"kind": "array", "dtype": DTYPE_ALIASES[m.group(1)], "dims": dims}
    return {"kind": "scalar", "dtype": DTYPE_ALIASES[ty]}


class FuncResult:
    def __init__(self, contract):
        self.contract = contract
        self.ctx = None
        self.fsrc = None
        self.error = None       # ("binding"|"unsupported"|"crash", message)
        self.paths = 0
        self.exits = []


def entry_state(ex, c, fs):
    st = State()
    ctx = ex.ctx
    ghost = {}
    builder = c.options.get("entry_builder")
    if builder is not None:
        builder(ex, st)
        st.old = {"env": dict(st.env), "heap": dict(st.heap)}
        return st
    for p in fs.params:
        if p not in c.params:
            if p in fs.defaults:
                st.env[p] = ex.eval(fs.defaults[p], State())
                continue
            raise BindingFailure(f"{c.short}: parameter '{p}' of the source has no type in the sidecar")
    for p in c.params:
        if p not in fs.params:
            raise BindingFailure(f"{c.short}: sidecar parameter '{p}' is not a parameter of the source ({fs.params})")
    for p, ty in c.params.items():
        t = parse_type(ty)
        if t["kind"] == "array":
            shape = []
            for d in t["dims"]:
                if isinstance(d, int):
                    shape.append(d)
                else:
                    if d not in ghost:
                        g = z3.Int(d)
                        ghost[d] = g
                        st.assume(g >= 0)
                    shape.append(ghost[d])
            a = Arr(ctx.new_oid(), tuple(shape), t["dtype"], name=p)
            st.heap[a.oid] = z3.Const(p, ctx.arr_sort(t["dtype"], len(shape)))
            st.env[p] = a
            if t["dtype"] in INT_RANGE and c.options.get("int_ranges", True) and t["dtype"] != "i8":
                lo, hi = INT_RANGE[t["dtype"]]
                ks = [z3.Int(f"k!r{i}") for i in range(len(shape))]
                rsel = sel(st.heap[a.oid], *ks)
                st.assume(z3.ForAll(ks, z3.And(rsel >= lo, rsel <= hi), patterns=[rsel]))
        elif t["kind"] == "scalar":
            st.env[p] = z3.Const(p, ctx.elem_sort(t["dtype"]))
        elif t["kind"] == "tuple":
            st.env[p] = Tup([z3.Const(f"{p}!{i}", ctx.elem_sort(it["dtype"])) for i, it in enumerate(t["items"])])
        else:
            st.env[p] = t["value"]
    for g, v in ghost.items():
        st.env.setdefault(g, v)
    for nm, e in c.ghost.items():
        if isinstance(e, str):
            pass
    st.old = {"env": dict(st.env), "heap": dict(st.heap)}
    for p in c.track_written:
        a = st.env[p]
        st.written[a.oid] = z3.K(z3.IntSort(), z3.BoolVal(False)) if a.ndim == 1 else \
            z3.Lambda([z3.Int(f"k!w{i}") for i in range(a.ndim)], z3.BoolVal(False))
    return st


def verify_function(c, extra_options=None):
    res = FuncResult(c)
    try:
        fs = frontend.load(c.path, c.qualname)
        res.fsrc = fs
        ctx = Ctx(c, spec.REGISTRY, c.fmodel)
        if extra_options:
            ctx.options.update(extra_options)
        res.ctx = ctx
        ex = Exec(ctx, fs)
        # loop binding check
        for ordn, ls in c.loops.items():
            if ordn >= len(fs.loops):
                raise BindingFailure(f"{c.short}: sidecar has an invariant for loop #{ordn}, source has {len(fs.loops)} loops")
        if "nloops" in c.options and c.options["nloops"] != len(fs.loops):
            raise BindingFailure(f"{c.short}: source has {len(fs.loops)} loops, sidecar expects {c.options['nloops']}")
        rec = frontend.recorded_heads(c.key, c.variant)
        if rec is not None and c.loops:
            heads = [frontend.loop_head(n) for n in fs.loops]
            if rec["nloops"] != len(heads):
                raise BindingFailure(f"{c.short}: source has {len(heads)} loops, the sidecar was written against {rec['nloops']} (loop invariants are bound by ordinal)")
            for ordn in c.loops:
                # the loop variable identifies the loop; a changed bound or iterable is a semantic change the invariants decide
                if isinstance(ordn, int) and rec["heads"][ordn].split(" in ")[0] != heads[ordn].split(" in ")[0]:
                    raise BindingFailure(f"{c.short}: loop #{ordn} is now `{heads[ordn]}`, the sidecar invariant was written for `{rec['heads'][ordn]}`")
        st = entry_state(ex, c, fs)
        for nm, e in c.requires.items():
            st.assume(zbool(ex.spec_eval(e, st)), tag=f"req:{nm}")
        # vacuity: the precondition must be satisfiable
        ctx.obls.append(Obl(f"{c.short}/vacuity/requires", "vacuity", list(st.pc), z3.BoolVal(True), expect="sat", model=ctx.fm.name))
        if c.entry_hints:
            ex.apply_hints(st, c.entry_hints, fs.path)
        # parameter terms, kept for turning a solver model into a concrete input (replay)
        ctx.inputs = []
        for p, ty in c.params.items():
            v0 = st.old["env"].get(p)
            if isinstance(v0, Arr):
                ctx.inputs.append({"name": p, "type": ty, "term": st.old["heap"][v0.oid], "shape": list(v0.shape)})
            elif z3.is_expr(v0):
                ctx.inputs.append({"name": p, "type": ty, "term": v0, "shape": None})
            else:
                ctx.inputs.append({"name": p, "type": ty, "const": v0 if isinstance(v0, (int, float, str, bool, type(None))) else None, "shape": None})
        outs = ex.exec_block(fs.body, st)
        res.paths = len(outs)
        missing = set(c.anchors) - getattr(ctx, "anchors_hit", set())
        if missing:
            # an anchor whose statement exists in the source but was not reached on any feasible path is not a binding problem
            import ast as _ast
            texts = ["after: " + _ast.unparse(n) for b in fs.body for n in _ast.walk(b) if isinstance(n, _ast.stmt) and not isinstance(n, (_ast.For, _ast.If))]
            def present(key):
                return any(t == key or (key.endswith("=") and t.startswith(key + " ")) or (key.endswith("...") and t.startswith(key[:-3])) for t in texts)
            missing = {k for k in missing if not present(k)}
        if missing:
            raise BindingFailure(f"{c.short}: ghost anchors not found in the source: {sorted(missing)}")
        nret = 0
        for cur, oc in outs:
            if oc.kind == NORMAL:
                oc = Outcome(RETURN, None)
            if oc.kind == RETURN:
                nret += 1
                cur.env["result"] = oc.value
                if c.exit_hints:
                    ex.apply_hints(cur, c.exit_hints, fs.path)
                # postconditions speak about the caller's view: parameter names denote the objects / values passed in (current heap),
                # not whatever a local rebinding (`y = np.where(...)`) made of the name; local_ensures keep the function's own view
                caller = cur.copy()
                for p in c.params:
                    if p in cur.old["env"]:
                        caller.env[p] = cur.old["env"][p]
                for nm, e in list(c.ensures.items()) + list(c.local_ensures.items()):
                    try:
                        g = ex.spec_eval(e, caller if nm in c.ensures else cur)
                    except Unsupported as exc:
                        if nm in c.local_ensures and "unbound name" in str(exc):
                            continue      # a clause about locals that do not exist on this return path
                        raise
                    by = (c.options.get("by") or {}).get(nm)
                    ex.emit(caller if nm in c.ensures else cur, "post", nm, g, fs.path, by=by)
                for p in c.track_written:
                    a = cur.env[p] if p in cur.env else None
                    a0 = cur.old["env"][p]
                    w = cur.written[a0.oid]
                    ks = [fresh("k", z3.IntSort()) for _ in range(a0.ndim)]
                    rng = z3.And(*[z3.And(k >= 0, k < zint(n)) for k, n in zip(ks, a0.shape)])
                    wsel = sel(w, *ks)
                    ex.emit(cur, "written", p, z3.ForAll(ks, z3.Implies(rng, wsel)), fs.path)
                # frame: arrays passed in and not in modifies keep their contents
                if c.options.get("frame_obligations", True):
                    for p, ty in c.params.items():
                        a0 = cur.old["env"].get(p)
                        if isinstance(a0, Arr) and p not in c.modifies:
                            t0, t1 = cur.old["heap"][a0.oid], cur.heap[a0.oid]
                            if not t0.eq(t1):
                                ex.emit(cur, "frame", p, t0 == t1, fs.path)
                if c.raises == "always":
                    ex.emit(cur, "raises", "must_raise", z3.BoolVal(False), fs.path)
                res.exits.append(("return", cur))
            elif oc.kind == RAISE:
                cur.env["exc"] = oc.value
                if c.raises is None:
                    ex.emit(cur, "noraise", f"raise_{oc.value}", z3.BoolVal(False), fs.path)
                else:
                    for nm, e in c.exc_ensures.items():
                        ex.emit(cur, "raises", nm, ex.spec_eval(e, cur), fs.path)
                res.exits.append(("raise", cur))
            else:
                raise Unsupported(f"outcome {oc.kind} escapes the function")
        # canary: assert False at the end of the function must FAIL (paths are reachable)
        if nret:
            reach = [z3.And(*cur.pc) if cur.pc else z3.BoolVal(True) for k, cur in res.exits if k == "return"]
            ctx.obls.append(Obl(f"{c.short}/vacuity/exit_reachable", "vacuity", [z3.Or(*reach)], z3.BoolVal(True), expect="sat", model=ctx.fm.name))
    except BindingFailure as exc:
        res.error = ("binding", str(exc))
    except Unsupported as exc:
        res.error = ("unsupported", str(exc))
    except Exception as exc:  # checker crash: never a violation
        res.error = ("crash", f"{type(exc).__name__}: {exc}\n{traceback.format_exc()}")
    return res


def prove_lemma(lem):
    """Obligation for a closed lemma."""
    from .engine import Ctx
    c = spec.Contract(f"lemma::{lem.name}", variant="lemma!" + lem.name, fmodel=lem.fmodel)
    spec.REGISTRY.pop((c.key, c.variant), None)
    ctx = Ctx(c, spec.REGISTRY, lem.fmodel)
    ex = Exec(ctx, None)
    ex.fname = "lemma"
    st = State()
    for v, ty in lem.vars.items():
        t = parse_type(ty)
        if t["kind"] == "array":
            a = Arr(ctx.new_oid(), tuple(z3.Int(f"{v}!len{i}") for i in range(len(t["dims"]))), t["dtype"], name=v)
            st.heap[a.oid] = z3.Const(v, ctx.arr_sort(t["dtype"], len(t["dims"])))
            st.env[v] = a
        else:
            st.env[v] = z3.Const(v, ctx.elem_sort(t["dtype"]))
    for h in lem.hyps:
        st.assume(zbool(ex.spec_eval(h, st)))
    obls = []
    for i, g in enumerate(lem.concl):
        o = Obl(f"lemma/{lem.name}/{i}", "lemma", list(st.pc), zbool(ex.spec_eval(g, st)), model=lem.fmodel, by=lem.by)
        o.axioms = list(ctx.axioms)
        obls.append(o)
    for o in obls:
        o.axioms = list(ctx.axioms)
    return obls


class _Alt:
    def __init__(self, hyps, goal, axioms):
        self.hyps, self.goal, self.axioms = hyps, goal, axioms


def verify_portfolio(c, extra_options=None, modes=("naive", "fuel")):
    if c.options.get("rel_vary") is not None:
        from . import relational
        return relational.verify_relational(c)
    return _verify_portfolio(c, extra_options, modes)


def _verify_portfolio(c, extra_options=None, modes=("naive", "fuel")):
    """VCs of one contract under several sound encodings of the recursive spec functions.

    The primary obligations come from the first mode; the same obligation (same id) generated under
    the other encodings, plus a variant without spec-function axioms, are attached as alternatives."""
    opts = dict(extra_options or {})
    opts["specfn_encoding"] = modes[0]
    res = verify_function(c, opts)
    if res.ctx is None or res.error:
        return res
    for o in res.ctx.obls:
        o.axioms = list(res.ctx.axioms)
        o.inputs = getattr(res.ctx, "inputs", None)
        o.alternatives = [("noax", _Alt(o.hyps, o.goal, list(res.ctx.fm.axioms)))] if o.expect != "sat" else []
    byid = {o.id: o for o in res.ctx.obls}
    for m in modes[1:]:
        o2 = dict(extra_options or {})
        o2["specfn_encoding"] = m
        r2 = verify_function(c, o2)
        if r2.ctx is None or r2.error:
            continue
        for o in r2.ctx.obls:
            if o.id in byid and o.expect != "sat":
                byid[o.id].alternatives.append((m, _Alt(o.hyps, o.goal, list(r2.ctx.axioms))))
    return res

"""Sidecar contract language: contracts, spec expressions, spec functions, lemmas (DESIGN.md §2.4)."""
import ast
import re

import z3

from . import engine
from .engine import sel, Arr, Exec, Tup, PList, Unsupported, fresh, zbool, zint, DTYPE_ALIASES

REGISTRY = {}      # (key, variant) -> Contract
LEMMAS = {}        # name -> Lemma
SPECFNS = {}       # name -> SpecFn


class Contract:
    def __init__(self, key, variant="default", params=None, requires=None, ensures=None, loops=None, result=None,
                 modifies=None, options=None, fmodel="R", ghost=None, globals_=None, props=(), raises=None,
                 entry_hints=None, exit_hints=None, pure=None, note="", track_written=None, exc_ensures=None,
                 call_variant=None, returns_none_ok=True, assumes=None, anchors=None, local_ensures=None):
        self.key = key
        self.variant = variant
        self.path, self.qualname = key.split("::")
        self.short = self.qualname + ("" if variant == "default" else f"[{variant}]")
        self.params = params or {}
        self.requires = _named(requires)
        self.ensures = _named(ensures)
        self.exc_ensures = _named(exc_ensures)
        self.loops = loops or {}
        self.result = result
        self.modifies = modifies or []
        self.options = options or {}
        self.fmodel = fmodel
        self.ghost = ghost or {}
        self.globals_ = globals_ or {}
        self.props = tuple(props)
        self.raises = raises
        self.entry_hints = entry_hints or []
        self.exit_hints = exit_hints or []
        self.pure = (not self.modifies) if pure is None else pure
        self.note = note
        self.track_written = track_written or []
        self.call_variant = call_variant or {}
        self.assumes = _named(assumes)
        self.anchors = anchors or {}
        self.local_ensures = _named(local_ensures)   # checked at exit, may mention locals; never assumed by callers
        REGISTRY[(key, variant)] = self


def _named(x):
    if x is None:
        return {}
    if isinstance(x, dict):
        return dict(x)
    return {f"c{i}": e for i, e in enumerate(x)}


def contract(key, **kw):
    return Contract(key, **kw)


class Lemma:
    """Closed formula  forall vars. hyps => concl, proved once and instantiated by name."""

    def __init__(self, name, vars_, hyps, concl, fmodel="R", by=None, note=""):
        self.name, self.vars, self.hyps, self.concl, self.fmodel, self.by, self.note = name, vars_, hyps, concl, fmodel, by or {}, note
        LEMMAS[name] = self


def lemma(name, vars_, hyps, concl, **kw):
    return Lemma(name, vars_, hyps, concl, **kw)


class SpecFn:
    """Spec function given by (recursive) defining equations over the spec language.

    params: "a:real[], lo:int, hi:int";  ret: "real"|"int"|"bool"
    cases: list of (guard_expr or None, value_expr) -- first matching guard wins.
    Encoded as an uninterpreted function + one unfold axiom per definition with the application
    as trigger; evaluated concretely by speceval with the same equations.
    """

    def __init__(self, name, params, ret, cases, doc=""):
        self.name, self.ret, self.cases, self.doc = name, ret, cases, doc
        self.params = []
        for p in re.split(r",(?![^\[]*\])", params):
            nm, ty = p.strip().split(":")
            self.params.append((nm.strip(), ty.strip()))
        SPECFNS[name] = self


def specfn(name, params, ret, cases, doc=""):
    return SpecFn(name, params, ret, cases, doc)


def sort_of(ctx, ty):
    ty = ty.strip()
    m = re.match(r"(\w+)\[(.*)\]$", ty)
    if m:
        dt = DTYPE_ALIASES[m.group(1)]
        nd = max(1, m.group(2).count(",") + 1)
        return ctx.arr_sort(dt, nd)
    dt = DTYPE_ALIASES.get(ty, ty)
    return ctx.elem_sort(dt)


_RECFUNS = {}


def specfn_decl(ex, sf):
    ctx = ex.ctx
    if sf.name in ctx.spec_cache:
        return ctx.spec_cache[sf.name]
    sorts = [sort_of(ctx, ty) for _, ty in sf.params]
    mode = ex.ctx.options.get("specfn_encoding", "naive")
    if mode == "recfun":
        # z3 5.1 answers `unsat` for satisfiable formulas that apply a RecFunction to a lambda array
        # (found by a mutation self-test); the encoding is kept only for experiments and is never used.
        raise Unsupported("recfun encoding is disabled: unsound in z3 5.1 with lambda arguments")
    if mode == "recfun":
        rkey = (sf.name, tuple(str(x) for x in sorts))
        if rkey in _RECFUNS:
            ctx.spec_cache[sf.name] = _RECFUNS[rkey]
            return _RECFUNS[rkey]
        f = z3.RecFunction(sf.name + "!rec", *sorts, sort_of(ctx, sf.ret))
        _RECFUNS[rkey] = f
        flim = f
    else:
        f = z3.Function(sf.name if mode == "naive" else sf.name + "!f", *sorts, sort_of(ctx, sf.ret))
        # "fuel 1" encoding: recursive calls inside the definition go to a synonym f!lim that does not
        # trigger further unfolding (avoids matching loops); f(x) == f!lim(x) is triggered by f(x) only.
        flim = z3.Function(sf.name + "!lim", *sorts, sort_of(ctx, sf.ret)) if mode == "fuel" else f
    ctx.spec_cache[sf.name] = flim
    if not sf.cases:
        # uninterpreted spec function (no defining axiom): only congruence is known about it
        ctx.spec_cache[sf.name] = f
        return f
    vs = [z3.Const(f"{sf.name}!{nm}", s) for (nm, _), s in zip(sf.params, sorts)]
    st = engine.State()
    for (nm, ty), v in zip(sf.params, vs):
        if "[" in ty:
            m = re.match(r"(\w+)\[(.*)\]$", ty)
            dt = DTYPE_ALIASES[m.group(1)]
            nd = max(1, m.group(2).count(",") + 1)
            a = Arr(ctx.new_oid(), tuple([None] * nd), dt, name=nm)
            st.heap[a.oid] = v
            st.env[nm] = a
        else:
            st.env[nm] = v
    body = None
    for guard, val in reversed(sf.cases):
        v = ex.spec_eval(val, st)
        v = _coerce(ex, v, sf.ret)
        if guard is None:
            body = v
        else:
            g = zbool(ex.spec_eval(guard, st))
            body = v if body is None else z3.If(g, v, body)
    ctx.spec_cache[sf.name] = f
    if mode == "recfun":
        z3.RecAddDefinition(f, vs, body)
        return f
    app = f(*vs)
    ctx.add_axiom(z3.ForAll(vs, app == body, patterns=[app]))
    if mode == "fuel":
        ctx.add_axiom(z3.ForAll(vs, app == flim(*vs), patterns=[app]))
    return f


def _coerce(ex, v, ty):
    dt = DTYPE_ALIASES.get(ty, ty)
    if dt in ("f8", "f4"):
        return ex.tofloat(v)
    if dt == "b1":
        return zbool(v)
    return zint(v)


# ----------------------------------------------------------------------------- spec evaluation
def spec_eval(self, expr, st):
    """Evaluate a spec expression (string or AST) in state `st` -> z3 term / python constant."""
    node = ast.parse(expr, mode="eval").body if isinstance(expr, str) else expr
    saved = self.spec_mode
    self.spec_mode = True
    try:
        return self.eval(node, st)
    finally:
        self.spec_mode = saved


Exec.spec_eval = spec_eval


def _bound(ex, st, varnode, lo, hi, body_node):
    if isinstance(varnode, ast.Tuple):
        names = [e.id for e in varnode.elts]
    else:
        names = [varnode.id]
    vs = [fresh(n, z3.IntSort()) for n in names]
    sub = st.copy()
    for n, v in zip(names, vs):
        sub.env[n] = v
    return names, vs, sub


def sb_forall(ex, node, st, exists=False):
    # forall(i, lo, hi, body)   |  forall(i, body)  (unbounded int)
    args = node.args
    names, vs, sub = _bound(ex, st, args[0], None, None, None)
    if len(args) == 4:
        lo = zint(ex.eval(args[1], st))
        hi = zint(ex.eval(args[2], st))
        rng = z3.And(vs[0] >= lo, vs[0] < hi)
        body = zbool(ex.truthy(ex.eval(args[3], sub)))
    elif len(args) == 2:
        rng = z3.BoolVal(True)
        body = zbool(ex.truthy(ex.eval(args[1], sub)))
    else:
        raise Unsupported("forall arity")
    pats = []
    for kw in node.keywords:
        if kw.arg == "pattern":
            pe = kw.value.elts if isinstance(kw.value, (ast.Tuple, ast.List)) else [kw.value]
            terms = [ex.eval(p, sub) for p in pe]
            pats = [z3.MultiPattern(*terms)] if len(terms) > 1 else terms
    if exists:
        return z3.Exists(vs, z3.And(rng, body))
    if pats:
        return z3.ForAll(vs, z3.Implies(rng, body), patterns=pats)
    return z3.ForAll(vs, z3.Implies(rng, body))


def sb_old(ex, node, st):
    sub = st.copy()
    env0, heap0 = st.old["env"], st.old["heap"]
    sub.env = dict(env0)
    sub.heap = dict(st.heap)
    sub.heap.update(heap0)
    return ex.eval(node.args[0], sub)


def sb_pre(ex, node, st):
    snap = st.pre.get("last")
    if len(node.args) == 2:
        snap = st.pre[ex.eval(node.args[1], st)]
    if snap is None:
        raise Unsupported("pre() outside a loop")
    sub = st.copy()
    sub.env = dict(snap[0])
    sub.heap = dict(st.heap)
    sub.heap.update(snap[1])
    return ex.eval(node.args[0], sub)


def sb_implies(ex, node, st):
    a = zbool(ex.truthy(ex.eval(node.args[0], st)))
    sub = st.copy(); sub.assume(a)
    b = zbool(ex.truthy(ex.eval(node.args[1], sub)))
    return z3.Implies(a, b)


def sb_ite(ex, node, st):
    c = ex.truthy(ex.eval(node.args[0], st))
    a = ex.eval(node.args[1], st)
    b = ex.eval(node.args[2], st)
    return ex.ite(c if isinstance(c, bool) else zbool(c), a, b)


def sb_iff(ex, node, st):
    a = zbool(ex.truthy(ex.eval(node.args[0], st)))
    b = zbool(ex.truthy(ex.eval(node.args[1], st)))
    return a == b


def sb_written(ex, node, st):
    a = ex.eval(node.args[0], st)
    idx = [zint(ex.eval(x, st)) for x in node.args[1:]]
    root, ridx = a.map_index(tuple(idx))
    w = st.written.get(root.oid)
    if w is None:
        raise Unsupported("written() on an array that is not tracked")
    ridx = [zint(i) for i in ridx]
    return sel(w, *ridx)


def sb_real(ex, node, st):
    return ex.tofloat(ex.eval(node.args[0], st))


def sb_rint(ex, node, st):
    return ex.rint(ex.tofloat(ex.eval(node.args[0], st)))


def sb_isint(ex, node, st):
    v = ex.tofloat(ex.eval(node.args[0], st))
    return z3.ToReal(z3.ToInt(v)) == v


def sb_let(ex, node, st):
    # let(name, value, body)
    sub = st.copy()
    sub.env[node.args[0].id] = ex.eval(node.args[1], st)
    return ex.eval(node.args[2], sub)


def sb_arr(ex, node, st):
    """arr(i, n, expr): the array lambda i. expr, of length n (spec-level array value)."""
    names, vs, sub = _bound(ex, st, node.args[0], None, None, None)
    n = ex.eval(node.args[1], st)
    body = ex.eval(node.args[2], sub)
    dtype = "f8" if ex.isfloat(body) else ("b1" if engine.is_boolv(body) else "i8")
    body = ex.tofloat(body) if dtype == "f8" else (zbool(body) if dtype == "b1" else zint(body))
    tmp = engine.State()
    a = ex.new_array(st, (n,), dtype, z3.Lambda(vs, body), "specarr")
    return a


def sb_positions(ex, node, st):
    a = ex.eval(node.args[0], st)
    pos = getattr(a, "positions", None)
    if pos is None:
        raise Unsupported("positions() of an array that is not a boolean-mask selection")
    return pos


def sb_isnan(ex, node, st):
    return ex.fm.isnan(ex.tofloat(ex.eval(node.args[0], st)))


def sb_isinf(ex, node, st):
    return ex.fm.isinf(ex.tofloat(ex.eval(node.args[0], st)))


def sb_ORD(ex, node, st):
    from . import pymodel
    cal = pymodel.calendar(ex)
    return cal["ORD"](zint(ex.eval(node.args[0], st)), zint(ex.eval(node.args[1], st)))


def sb_abs_us(ex, node, st):
    from . import pymodel
    v = ex.eval(node.args[0], st)
    if isinstance(v, pymodel.DateV):
        return v.abs
    if isinstance(v, pymodel.TimedeltaV):
        return v.us
    raise Unsupported("abs_us of a non-datetime value")


def sb_same(ex, node, st):
    """same(a, b): the two values are the same value (for floats: the same float, NaN included; not IEEE ==)"""
    a, b = ex.eval(node.args[0], st), ex.eval(node.args[1], st)
    if ex.isfloat(a) or ex.isfloat(b):
        return ex.tofloat(a) == ex.tofloat(b)
    return zint(a) == zint(b)


def sb_pi(ex, node, st):
    """pi(): the constant the engine uses for numpy.pi / math.pi"""
    from . import libmodels
    return libmodels.resolve_attr(ex, libmodels.ModRef("numpy"), "pi")


SPEC_BUILTINS = {
    "pi": sb_pi,
    "same": sb_same,
    "ORD": sb_ORD, "abs_us": sb_abs_us,
    "isnan": sb_isnan, "isinf": sb_isinf,
    "positions": sb_positions,
    "forall": sb_forall, "exists": lambda ex, n, st: sb_forall(ex, n, st, exists=True), "old": sb_old, "pre": sb_pre,
    "implies": sb_implies, "ite": sb_ite, "iff": sb_iff, "written": sb_written, "real": sb_real, "rint": sb_rint,
    "isint": sb_isint, "let": sb_let, "arr": sb_arr,
}


def _has_lambda(t, seen=None):
    seen = set() if seen is None else seen
    if t.get_id() in seen:
        return False
    seen.add(t.get_id())
    if z3.is_quantifier(t):
        return t.is_lambda() or _has_lambda(t.body(), seen)
    return any(_has_lambda(c, seen) for c in t.children()) if z3.is_app(t) else False


def materialise(ex, st, term):
    """Array arguments of spec functions are never lambda terms: a fresh array constant with a
    quantified defining axiom is passed instead (robust e-matching; avoids solver corner cases)."""
    if not _has_lambda(term):
        return term
    cache = ex.ctx.__dict__.setdefault("mat_cache", {})
    key = term.get_id()
    if key in cache:
        cst, ax = cache[key]
    else:
        cst = fresh("arr", term.sort())
        nd = z3.Z3_get_array_arity(term.sort().ctx_ref(), term.sort().ast)
        ks = [z3.Int(f"k!m{i}") for i in range(nd)]
        ax = z3.ForAll(ks, sel(cst, *ks) == sel(term, *ks), patterns=[sel(cst, *ks)])
        cache[key] = (cst, ax)
        ex.ctx.keep = getattr(ex.ctx, "keep", [])
        ex.ctx.keep.append(term)
    if not any(h.eq(ax) for h in st.pc[-40:]):
        st.assume(ax, tag="def:lambda")
    return cst


def spec_call(ex, node, st):
    """Called by libmodels.call in spec mode for Name-calls; returns NotImplemented if not a spec construct."""
    if not isinstance(node.func, ast.Name):
        return NotImplemented
    nm = node.func.id
    if nm in SPEC_BUILTINS:
        return SPEC_BUILTINS[nm](ex, node, st)
    if nm in SPECFNS:
        sf = SPECFNS[nm]
        f = specfn_decl(ex, sf)
        args = []
        for a, (pn, ty) in zip(node.args, sf.params):
            v = ex.eval(a, st)
            if isinstance(v, Arr):
                if v.view is not None:
                    v = ex.copy_array(st, v)
                term = st.heap[v.oid]
                m = re.match(r"(\w+)\[", ty)
                want = DTYPE_ALIASES.get(m.group(1), m.group(1)) if m else None
                if want in ("f8", "f4") and v.dtype not in ("f8", "f4") and ex.fm.name != "U":
                    # an integer array passed where the spec function takes reals: the value-converted array (as numba does
                    # when a kernel written for float64 receives int16); the same source array always gives the same term
                    ks = [z3.Int(f"k!cv{i}") for i in range(v.ndim)]
                    term = z3.Lambda(ks, ex.tofloat(sel(term, *ks)))
                args.append(materialise(ex, st, term))
            else:
                args.append(_coerce(ex, v, ty))
        return f(*args)
    if nm in ("median", "nanmedian") and nm not in st.env:
        from . import libmodels
        return libmodels.L_median(nm)(ex, st, node, ex.eval(node.args[0], st))
    if nm in ("sqrt", "log", "erf", "ndtri", "gammainc", "digamma", "pow", "cos", "log10") and nm not in st.env:
        args = [ex.tofloat(ex.eval(a, st)) for a in node.args]
        return ex.fm.call(nm, *args)
    if nm in ex.c.ghost:
        # parameterised ghost definition "name(args)": "expr"
        params, body = ex.c.ghost[nm]
        sub = st.copy()
        for p, a in zip(params, node.args):
            sub.env[p] = ex.eval(a, st)
        return ex.eval(ast.parse(body, mode="eval").body, sub)
    return NotImplemented


# ----------------------------------------------------------------------------- hints
def _forall_parts(self, expr):
    node = ast.parse(expr, mode="eval").body if isinstance(expr, str) else expr
    if not (isinstance(node, ast.Call) and isinstance(node.func, ast.Name) and node.func.id == "forall"):
        raise Unsupported("inst: invariant is not a forall(...)")
    return node


def apply_hints(self, st, hints, where):
    """Proof hints (ghost code).  Every fact that is assumed is either proved first (have), a proved
    lemma/ghost-procedure instance (use/call), a definition of a fresh ghost name (let/freeze) or an
    instance of a quantified hypothesis that is already in the context (inst).  `assume` is reported."""
    for h in hints:
        kind = h[0]
        if kind == "have":
            _, name, expr, *rest = h
            by = rest[0] if rest else None
            g = self.spec_eval(expr, st)
            self.emit(st, "have", name, g, where, by=by)
            st.assume(zbool(g), tag=f"have:{name}")
        elif kind == "use":
            _, lname, binding = h
            lem = LEMMAS[lname]
            self.ctx.used_lemmas = getattr(self.ctx, "used_lemmas", set())
            self.ctx.used_lemmas.add(lname)
            sub = st.copy()
            for var, ty in lem.vars.items():
                v = self.spec_eval(binding[var], st)
                sub.env[var] = _coerce(self, v, ty)
            hy = [zbool(self.spec_eval(x, sub)) for x in lem.hyps]
            co = [zbool(self.spec_eval(x, sub)) for x in lem.concl]
            st.assume(z3.Implies(z3.And(*hy) if hy else z3.BoolVal(True), z3.And(*co)), tag=f"use:{lname}")
        elif kind == "call":
            # ghost procedure (lemma proved as a contract on a sidecar function): ("call", key, {param: expr})
            from . import frontend, libmodels
            _, key, binding = h
            c = REGISTRY[(key, "default")]
            fs = frontend.load(c.path, c.qualname)
            bound = {p: self.spec_eval(e, st) for p, e in binding.items()}
            self.ctx.ghost_calls = getattr(self.ctx, "ghost_calls", set())
            self.ctx.ghost_calls.add(key)
            libmodels.invoke_contract(self, st, c, fs, bound, None, label=f"hint@{where}")
        elif kind == "let":
            # ghost name := expression; scalars become fresh constants with a defining equation (tag let)
            _, name, expr = h
            v = self.spec_eval(expr, st)
            if z3.is_expr(v) and not isinstance(v, Arr):
                cst = fresh(name, v.sort())
                st.assume(cst == v, tag=f"let:{name}")
                st.env[name] = cst
            else:
                st.env[name] = v
        elif kind == "freeze":
            # replace the contents term of an array by a fresh array constant equal to it (canonical atoms);
            # ("freeze", name) in place, ("freeze", name, ghostname) snapshot under a ghost name
            name = h[1]
            a = st.env[name]
            term = st.heap[a.root().oid]
            cst = fresh(h[2] if len(h) > 2 else name, term.sort())
            st.assume(cst == term, tag=f"freeze:{name}")
            if len(h) > 2:
                g = Arr(self.ctx.new_oid(), a.shape, a.dtype, name=h[2])
                st.heap[g.oid] = cst
                st.env[h[2]] = g
            else:
                st.heap[a.root().oid] = cst
        elif kind == "inst":
            # instance of a quantified loop invariant, evaluated in the loop-head state where it was assumed:
            # ("inst", invariant_name, {var: expr}) ; the range condition becomes an obligation
            _, iname, binding = h
            head = st.extra.get("head")
            spec_l = st.extra.get("loopspec")
            if head is None or spec_l is None:
                raise Unsupported("inst outside a loop body")
            node = _forall_parts(self, spec_l["invariant"][iname])
            args = node.args
            var = args[0].id
            sub = st.copy()
            sub.env = dict(head[0]); sub.heap = dict(head[1]); sub.env[head[2]] = head[3]
            kval = self.spec_eval(binding[var], st)
            sub.env[var] = kval
            if len(args) == 4:
                lo = zint(self.eval(args[1], sub)); hi = zint(self.eval(args[2], sub))
                self.emit(st, "inst", f"{iname}@{binding[var]}", z3.And(zint(kval) >= lo, zint(kval) < hi), where)
                body = args[3]
            else:
                body = args[1]
            saved = self.spec_mode
            self.spec_mode = True
            try:
                f = zbool(self.truthy(self.eval(body, sub)))
            finally:
                self.spec_mode = saved
            st.assume(f, tag=f"inst:{iname}")
        elif kind == "instfact":
            # instance of a quantified fact established earlier by a ("have", name, "forall(...)") hint
            _, fname, binding = h
            expr = st.extra.get("facts", {}).get(fname)
            if expr is None:
                raise Unsupported(f"instfact: unknown fact {fname}")
            fexpr, fenv, fheap = expr
            node = _forall_parts(self, fexpr)
            args = node.args
            var = args[0].id
            sub = st.copy()
            sub.env = dict(fenv); sub.heap = dict(fheap)
            kval = self.spec_eval(binding[var], st)
            sub.env[var] = kval
            if len(args) == 4:
                lo = zint(self.eval(args[1], sub)); hi = zint(self.eval(args[2], sub))
                self.emit(st, "inst", f"{fname}@{binding[var]}", z3.And(zint(kval) >= lo, zint(kval) < hi), where)
                body = args[3]
            else:
                body = args[1]
            saved = self.spec_mode
            self.spec_mode = True
            try:
                f = zbool(self.truthy(self.eval(body, sub)))
            finally:
                self.spec_mode = saved
            st.assume(f, tag=f"inst:{fname}")
        elif kind == "fact":
            # ("fact", name, "forall(...)" [, by]) : prove a quantified fact now, remember it for instfact
            _, name, expr, *rest = h
            by = rest[0] if rest else None
            g = self.spec_eval(expr, st)
            self.emit(st, "have", name, g, where, by=by)
            st.assume(zbool(g), tag=f"have:{name}")
            st.extra = dict(st.extra)
            facts = dict(st.extra.get("facts", {}))
            facts[name] = (expr, dict(st.env), dict(st.heap))
            st.extra["facts"] = facts
        elif kind == "scope":
            # ("scope", [inner hints], name, goal_expr [, by]): inner hints and proof in a scratch copy; only the goal is kept
            _, inner, name, gexpr, *rest = h
            by = rest[0] if rest else None
            sub = st.copy()
            self.apply_hints(sub, inner, where)
            g = zbool(self.spec_eval(gexpr, sub))
            self.emit(sub, "have", name, g, where, by=by)
            st.assume(zbool(self.spec_eval(gexpr, st)), tag=f"have:{name}")
        elif kind == "forall_intro":
            # ("forall_intro", var, lo, hi, [inner hints], name, goal_expr [, by]):
            # fresh var in [lo,hi), inner hints and the proof of goal in a scratch copy of the state;
            # only the generalised fact  forall var in [lo,hi): goal  is added to the state.
            _, var, lo, hi, inner, name, gexpr, *rest = h
            by = rest[0] if rest else None
            sub = st.copy()
            v = fresh(var, z3.IntSort())
            sub.env[var] = v
            zlo, zhi = zint(self.spec_eval(lo, st)), zint(self.spec_eval(hi, st))
            sub.assume(z3.And(v >= zlo, v < zhi), tag="range")
            self.apply_hints(sub, inner, where)
            g = zbool(self.spec_eval(gexpr, sub))
            self.emit(sub, "have", name, g, where, by=by)
            q = self.spec_eval(f"forall({var}, {lo}, {hi}, {gexpr})", st)
            st.assume(zbool(q), tag=f"have:{name}")
        elif kind == "assume":
            _, name, expr = h
            self.ctx.assumed.add(f"assume:{self.fname}/{name}")
            st.assume(zbool(self.spec_eval(expr, st)), tag=f"assume:{name}")
        else:
            raise Unsupported(f"hint {kind}")


Exec.apply_hints = apply_hints

"""Loop handling: complete unrolling (literal trip count) or cut at the sidecar invariant."""
import ast

import z3

from .engine import (Arr, BREAK, CONTINUE, NORMAL, RAISE, RETURN, Outcome, PList, Tup, Unsupported, fresh, is_concrete,
                     zbool, zint)
from .frontend import BindingFailure


class RangeV:
    def __init__(self, lo, hi, step, parallel=False):
        self.lo, self.hi, self.step, self.parallel = lo, hi, step, parallel


def scan_modified(body):
    """names assigned / names stored-into in a loop body (syntactic, conservative)."""
    assigned, stored = set(), set()

    def tgt(t):
        if isinstance(t, ast.Name):
            assigned.add(t.id)
        elif isinstance(t, (ast.Tuple, ast.List)):
            for e in t.elts:
                tgt(e)
        elif isinstance(t, ast.Subscript):
            b = t.value
            while isinstance(b, ast.Subscript):
                b = b.value
            if isinstance(b, ast.Name):
                stored.add(b.id)
        elif isinstance(t, ast.Attribute):
            pass

    for n in ast.walk(ast.Module(body=list(body), type_ignores=[])):
        if isinstance(n, ast.Assign):
            for t in n.targets:
                tgt(t)
        elif isinstance(n, (ast.AugAssign, ast.AnnAssign)):
            tgt(n.target)
        elif isinstance(n, ast.For):
            tgt(n.target)
        elif isinstance(n, ast.Call):
            # out-parameters: np.round(a, 0, out)
            f = n.func
            nm = f.attr if isinstance(f, ast.Attribute) else (f.id if isinstance(f, ast.Name) else "")
            if nm in ("round", "round_", "around") and len(n.args) >= 3:
                b = n.args[2]
                while isinstance(b, ast.Subscript):
                    b = b.value
                if isinstance(b, ast.Name):
                    stored.add(b.id)
            if nm == "append" and isinstance(f, ast.Attribute) and isinstance(f.value, ast.Name):
                assigned.add(f.value.id)
    return assigned, stored


def fresh_like(ex, st, v, name):
    fm = ex.fm
    if isinstance(v, bool) or (z3.is_expr(v) and v.sort() == z3.BoolSort()):
        return fresh(name, z3.BoolSort())
    if isinstance(v, int) or (z3.is_expr(v) and v.sort() == z3.IntSort()):
        return fresh(name, z3.IntSort())
    if ex.isfloat(v):
        return fresh(name, fm.sort)
    if isinstance(v, Arr):
        root = v.root() if v.view is not None else v
        if v.view is not None:
            return v  # views are re-created by the body; the base is havocked separately
        return ex.new_array(st, v.shape, v.dtype, None, name)
    if isinstance(v, Tup):
        return Tup([fresh_like(ex, st, x, name) for x in v.items])
    if isinstance(v, PList):
        return PList([fresh_like(ex, st, x, name) for x in v.items])
    return v


def havoc(ex, st, assigned, stored, types=None, keep=()):
    for nm in sorted(assigned):
        if nm in keep:
            continue
        v = st.env.get(nm)
        if v is None and types:
            v = types.get(nm)
        if v is None:
            continue
        st.env[nm] = fresh_like(ex, st, v, nm)
    done = set()
    for nm in sorted(stored):
        v = st.env.get(nm)
        if isinstance(v, Arr):
            root = v.root()
            if root.oid in done:
                continue
            done.add(root.oid)
            st.heap[root.oid] = fresh(nm, ex.ctx.arr_sort(root.dtype, root.ndim))
            if root.oid in st.written:
                st.written[root.oid] = fresh(nm + "!wr", z3.ArraySort(*([z3.IntSort()] * root.ndim), z3.BoolSort()))


def exec_for(ex, s, st):
    ordn = ex.loop_ids.get(id(s))
    spec = ex.c.loops.get(ordn) if ordn is not None else None
    it = ex.eval(s.iter, st)
    elem_of = None
    if isinstance(it, RangeV):
        lo, hi, step = it.lo, it.hi, it.step
    elif isinstance(it, Arr) and it.ndim == 1:
        lo, hi, step = 0, it.shape[0], 1
        elem_of = it
    elif isinstance(it, (Tup, PList)):
        return unroll_items(ex, s, st, it.items)
    else:
        raise Unsupported(f"iteration over {type(it).__name__} at {ex.where(s)}")
    if step not in (1, -1):
        raise Unsupported("loop step")
    if getattr(it, "parallel", False):
        ex.ctx.notes.append(f"prange loop at {ex.where(s)} executed as sequential loop (ownership obligations separately)")
    concrete = all(isinstance(x, int) for x in (lo, hi))
    if spec is None and ex.ctx.options.get("loop_summaries") and (not concrete or len(range(lo, hi, step)) > ex.ctx.options.get("unroll_limit", 4)):
        return summarise_loop(ex, s, st, ordn, lo, hi, step, elem_of)
    if spec is None and ex.ctx.options.get("auto_cut"):
        # index-abstraction contracts: loops without a sidecar invariant are cut with the empty invariant
        # (only the loop range is known in the body); short literal loops are still unrolled
        if not concrete or len(range(lo, hi, step)) > ex.ctx.options.get("unroll_limit", 4):
            spec = {"invariant": {}}
    if spec is None or spec.get("unroll"):
        if not concrete:
            raise BindingFailure(f"{ex.fname}: loop #{ordn} at {ex.where(s)} has a symbolic trip count and no invariant in the sidecar")
        vals = list(range(lo, hi, step))
        if len(vals) > ex.ctx.options.get("max_unroll", 64):
            raise Unsupported(f"unroll of {len(vals)} iterations")
        ex.ctx.unrolled.append((ordn, len(vals)))
        return unroll_range(ex, s, st, vals, elem_of)
    if spec.get("var") and isinstance(s.target, ast.Name) and spec["var"] != s.target.id and elem_of is None:
        raise BindingFailure(f"{ex.fname}: loop #{ordn} iterates over '{s.target.id}', sidecar expects '{spec['var']}'")
    return cut_loop(ex, s, st, ordn, spec, lo, hi, step, elem_of, parallel=getattr(it, "parallel", False))


def bind_target(ex, s, st, val):
    ex.assign(s.target, val, st, s)


def unroll_items(ex, s, st, items):
    states = [(st, Outcome(NORMAL))]
    for v in items:
        nxt = []
        for cur, oc in states:
            if oc.kind != NORMAL:
                nxt.append((cur, oc)); continue
            bind_target(ex, s, cur, v)
            for c2, o2 in ex.exec_block(s.body, cur):
                if o2.kind in (NORMAL, CONTINUE):
                    nxt.append((c2, Outcome(NORMAL)))
                elif o2.kind == BREAK:
                    nxt.append((c2, Outcome("loopexit")))
                else:
                    nxt.append((c2, o2))
        states = nxt
    return [(c, Outcome(NORMAL) if o.kind == "loopexit" else o) for c, o in states]


def unroll_range(ex, s, st, vals, elem_of):
    states = [(st, Outcome(NORMAL))]
    for v in vals:
        nxt = []
        for cur, oc in states:
            if oc.kind != NORMAL:
                nxt.append((cur, oc)); continue
            if elem_of is not None:
                bind_target(ex, s, cur, ex.read(cur, elem_of, (v,), s, check=False))
            else:
                bind_target(ex, s, cur, v)
            for c2, o2 in ex.exec_block(s.body, cur):
                if o2.kind in (NORMAL, CONTINUE):
                    nxt.append((c2, Outcome(NORMAL)))
                elif o2.kind == BREAK:
                    nxt.append((c2, Outcome("loopexit")))
                else:
                    nxt.append((c2, o2))
        states = nxt
    return [(c, Outcome(NORMAL) if o.kind == "loopexit" else o) for c, o in states]


def check_invariants(ex, st, spec, ordn, phase, idxname, idxval, where, only=None):
    invs = spec.get("invariant", {})
    saved = st.env.get(idxname, None)
    had = idxname in st.env
    st.env[idxname] = idxval
    try:
        for nm, expr in invs.items():
            if only is not None and nm not in only:
                continue
            g = ex.spec_eval(expr, st)
            by = (spec.get("by") or {}).get(f"{phase}/{nm}") or (spec.get("by") or {}).get(nm)
            ex.emit(st, f"inv.{phase}", f"loop{ordn}/{nm}", g, where, by=by)
    finally:
        if had:
            st.env[idxname] = saved
        else:
            st.env.pop(idxname, None)


def assume_invariants(ex, st, spec, idxname, idxval):
    saved = st.env.get(idxname, None)
    had = idxname in st.env
    st.env[idxname] = idxval
    try:
        for nm, expr in spec.get("invariant", {}).items():
            st.assume(zbool(ex.spec_eval(expr, st)), tag=f"inv:{nm}")
        for nm, expr in spec.get("assume", {}).items():   # explicit, reported assumptions
            ex.ctx.assumed.add(f"assume:{ex.fname}/loop/{nm}")
            st.assume(zbool(ex.spec_eval(expr, st)))
    finally:
        if had:
            st.env[idxname] = saved
        else:
            st.env.pop(idxname, None)


class it_parallel_marker:
    flag = False


def cut_loop(ex, s, st, ordn, spec, lo, hi, step, elem_of, parallel=False):
    where = ex.where(s)
    # name by which invariants refer to the "next index"
    if elem_of is None:
        if not isinstance(s.target, ast.Name):
            raise Unsupported("tuple loop target")
        idxname = s.target.id
    else:
        idxname = spec.get("index", f"_k{ordn}")
    zlo, zhi = zint(lo), zint(hi)
    assigned, stored = scan_modified(s.body)
    if isinstance(s.target, ast.Name):
        assigned.add(s.target.id)
    # calls to repo functions with modifies clauses: add their out-params
    for nm in spec.get("modifies", []):
        stored.add(nm)
    for nm in spec.get("ghost_assigned", []):
        assigned.add(nm)
    if any(isinstance(x, (ast.Yield, ast.YieldFrom)) for b in s.body for x in ast.walk(b)) and st.extra.get("ygh"):
        assigned.add("yc")
        stored.update(["YLO", "YHI", "YSTAMP", "YRED", "YSTART", "YSTOP", "YN"])
    for nm, ty in (spec.get("locals") or {}).items():
        if nm not in st.env:
            from .verify import parse_type
            t = parse_type(ty)
            if t["kind"] == "array":
                shape = tuple(d if isinstance(d, int) else st.env[d] for d in t["dims"])
                st.env[nm] = ex.new_array(st, shape, t["dtype"], None, nm)
            else:
                st.env[nm] = fresh(nm, ex.ctx.elem_sort(t["dtype"]))
    st.pre[ordn] = (dict(st.env), dict(st.heap))
    st.pre["last"] = st.pre[ordn]

    # ---- initiation
    if spec.get("entry_hints"):
        ex.apply_hints(st, spec["entry_hints"], where)
    check_invariants(ex, st, spec, ordn, "init", idxname, lo, where)

    # ---- arbitrary iteration
    h = st.copy()
    havoc(ex, h, assigned - {idxname}, stored)
    k = fresh(idxname, z3.IntSort())
    if step == 1:
        h.assume(z3.And(k >= zlo, k < zhi), tag="range")
    else:
        h.assume(z3.And(k <= zlo, k > zhi), tag="range")
    assume_invariants(ex, h, spec, idxname, k)
    h.extra = dict(h.extra)
    h.extra["head"] = (dict(h.env), dict(h.heap), idxname, k)
    h.extra["loopspec"] = spec
    if parallel:
        # prange: objects that exist before the loop are shared between iterations; every store into one of
        # them must hit a slot indexed by the prange variable (ownership obligation `own`)
        shared = set()
        for v in st.env.values():
            if isinstance(v, Arr):
                shared.add(v.root().oid)
        h.extra["prange"] = (k, shared)
        ex.ctx.notes.append(f"prange loop at {where}: {len(shared)} shared arrays, ownership obligations emitted for every store into them")
    if elem_of is not None:
        h.env[idxname] = k
        bind_target(ex, s, h, ex.read(h, elem_of, (k,), s, check=False))
    else:
        h.env[idxname] = k
    if getattr(it_parallel_marker, "flag", False) or spec.get("parallel"):
        pass
    if spec.get("head_hints"):
        ex.apply_hints(h, spec["head_hints"], where)
    exits = []
    types = {}
    body_res = ex.exec_block(s.body, h)
    for cur, oc in body_res:
        for nm in assigned:
            if nm in cur.env and nm not in types:
                types[nm] = cur.env[nm]
        if oc.kind in (NORMAL, CONTINUE):
            run_hints(ex, cur, spec, idxname, k, where)
            check_invariants(ex, cur, spec, ordn, "pres", idxname, k + 1 if step == 1 else k - 1, where)
            for nm in assigned:
                # arrays rebound inside the loop must keep the assumed shape
                v0, v1 = h.env.get(nm), cur.env.get(nm)
                if isinstance(v0, Arr) and isinstance(v1, Arr) and v0.view is None and v1.view is None:
                    for a, b in zip(v0.shape, v1.shape):
                        if not (isinstance(a, int) and isinstance(b, int) and a == b) and not (z3.is_expr(a) and z3.is_expr(b) and a.eq(b)):
                            ex.emit(cur, "shape", f"loop{ordn}/rebind_{nm}", zint(a) == zint(b), where)
        elif oc.kind == BREAK:
            exits.append((cur, Outcome(NORMAL)))
        else:
            exits.append((cur, oc))

    # ---- exit by exhaustion
    e = st.copy()
    havoc(ex, e, assigned - {idxname}, stored, types)
    kx = fresh(idxname + "!exit", z3.IntSort())
    if step == 1:
        e.assume(kx == z3.If(zlo <= zhi, zhi, zlo), tag="range")
    else:
        e.assume(kx == z3.If(zlo >= zhi, zhi, zlo), tag="range")
    assume_invariants(ex, e, spec, idxname, kx)
    e.extra = dict(e.extra)
    e.extra["head"] = (dict(e.env), dict(e.heap), idxname, kx)
    e.extra["loopspec"] = spec
    if spec.get("exit_hints"):
        sv, hd = e.env.get(idxname), idxname in e.env
        e.env[idxname] = kx
        ex.apply_hints(e, spec["exit_hints"], where)
        if hd:
            e.env[idxname] = sv
        else:
            e.env.pop(idxname, None)
    prev = st.env.get(idxname)
    ran = (zlo < zhi) if step == 1 else (zlo > zhi)
    last = kx - 1 if step == 1 else kx + 1
    if elem_of is None:
        if prev is not None and (isinstance(prev, int) or (z3.is_expr(prev) and prev.sort() == z3.IntSort())):
            e.env[idxname] = z3.If(ran, last, zint(prev))
        else:
            e.env[idxname] = last
    else:
        e.env.pop(idxname, None)
    exits.append((e, Outcome(NORMAL)))
    return exits


def run_hints(ex, st, spec, idxname, k, where):
    """Proof hints executed at the end of the loop body (before the preservation checks).

    ("have", name, expr, by)    : prove expr (named obligation, back end `by`), then assume it
    ("use", lemma, {var: expr}) : instantiate a closed lemma (proved separately) with expressions
    """
    hints = spec.get("hints") or []
    if not hints:
        return
    saved = st.env.get(idxname)
    had = idxname in st.env
    st.env[idxname] = k
    try:
        ex.apply_hints(st, hints, where)
    finally:
        if had:
            st.env[idxname] = saved
        else:
            st.env.pop(idxname, None)


def _read_names(s):
    names = set()
    for n in ast.walk(s):
        if isinstance(n, ast.Name) and isinstance(n.ctx, ast.Load):
            names.add(n.id)
    return names


def _flatten(ex, st, v, out):
    from .libmodels import restrict
    if isinstance(v, Arr):
        out.append(restrict(ex, st, v))
        for d in v.shape:
            out.append(zint(d))
    elif isinstance(v, (Tup, PList)):
        for x in v.items:
            _flatten(ex, st, x, out)
    elif isinstance(v, bool):
        out.append(z3.BoolVal(v))
    elif isinstance(v, int):
        out.append(z3.IntVal(v))
    elif ex.isfloat(v):
        out.append(ex.tofloat(v))
    elif z3.is_expr(v):
        out.append(v)
    # None / strings / function references: constants of the source, identical in every run


def summarise_loop(ex, s, st, ordn, lo, hi, step, elem_of):
    """Relational mode (model U): a loop is a deterministic function of the values it reads.  Every variable and
    array the loop writes gets, after the loop, the value  LoopFn_<ordinal>_<name>(entry values of everything the loop reads).
    Two runs that enter the loop with equal (in-range) values leave it with equal values.  Sound because the body is
    deterministic; nothing else is assumed about the loop."""
    if any(isinstance(n, ast.Return) for b in s.body for n in ast.walk(b)):
        raise Unsupported("loop summary of a loop that returns")
    assigned, stored = scan_modified(s.body)
    if isinstance(s.target, ast.Name):
        assigned.add(s.target.id)
    reads = _read_names(s) | assigned | stored
    args = [zint(lo), zint(hi)]
    for nm in sorted(reads):
        if nm in st.env:
            _flatten(ex, st, st.env[nm], args)
    # probe run to learn the types of what the loop leaves behind (obligations suppressed)
    probe = st.copy()
    havoc(ex, probe, assigned, stored)
    k = fresh("probe", z3.IntSort())
    if elem_of is not None:
        bind_target(ex, s, probe, ex.read(probe, elem_of, (k,), s, check=False))
    else:
        probe.env[s.target.id] = k
    saved = ex.ctx.obls
    ex.ctx.obls = []
    try:
        types = {}
        for cur, oc in ex.exec_block(s.body, probe):
            for nm in assigned:
                if nm in cur.env and nm not in types:
                    types[nm] = cur.env[nm]
    finally:
        ex.ctx.obls = saved
    fkey = (ex.c.key, ordn)

    def loopfn(tag, sort):
        key = ("loop", fkey, tag, tuple(a.sort().sexpr() for a in args), sort.sexpr())
        f = ex.ctx.valfn.get(key)
        if f is None:
            f = z3.Function(f"loop!{ordn}!{tag}!{len(ex.ctx.valfn)}", *[a.sort() for a in args], sort)
            ex.ctx.valfn[key] = f
        return f(*args)

    def summarise_value(nm, v, tag):
        if isinstance(v, Arr):
            if v.view is not None:
                return v
            a = ex.new_array(st, v.shape, v.dtype, None, nm)
            st.heap[a.oid] = loopfn(tag, ex.ctx.arr_sort(v.dtype, v.ndim))
            return a
        if isinstance(v, (Tup, PList)):
            return type(v)([summarise_value(nm, x, f"{tag}.{i}") for i, x in enumerate(v.items)])
        if isinstance(v, bool) or (z3.is_expr(v) and v.sort() == z3.BoolSort()):
            return loopfn(tag, z3.BoolSort())
        if isinstance(v, int) or (z3.is_expr(v) and v.sort() == z3.IntSort()):
            return loopfn(tag, z3.IntSort())
        if ex.isfloat(v):
            return loopfn(tag, ex.fm.sort)
        return v

    for nm in sorted(assigned):
        v = types.get(nm, st.env.get(nm))
        if v is None:
            continue
        st.env[nm] = summarise_value(nm, v, nm)
    done = set()
    for nm in sorted(stored):
        v = st.env.get(nm)
        if isinstance(v, Arr):
            root = v.root()
            if root.oid in done:
                continue
            done.add(root.oid)
            st.heap[root.oid] = loopfn(nm + "[]", ex.ctx.arr_sort(root.dtype, root.ndim))
    ex.ctx.notes.append(f"loop #{ordn} at {ex.where(s)} summarised as a deterministic function of {len(args)} entry values (relational mode)")
    return [(st, Outcome(NORMAL))]

"""Models of the plain-Python values used by hdc/algo/dekad.py: class instances (methods and properties are
the *real AST*, executed inline), datetime/date/timedelta over a proleptic-Gregorian ordinal with the
axioms of DESIGN.md §4 C11, and fixed-width formatted strings.

Calendar model (assumed contract of CPython's datetime, validated exhaustively by the C11 stand-in):
  ORD(y, m)            ordinal (days) of the first day of month m of year y
  ORD(y, m+1) = ORD(y, m) + dim(y, m)      for 1 <= m < 12
  ORD(y+1, 1) = ORD(y, 12) + 31
  dim(y, m)            Gregorian month length (leap rule y%4==0 and (y%100!=0 or y%400==0))
  datetime(y, m, d) + k microseconds  <->  (ORD(y, m) + d - 1) * 86_400_000_000 + k
String model: f"{v:04d}" has exactly 4 characters for 0 <= v <= 9999 (obligation), int() of such a field is v.
"""
import ast

import z3

from . import frontend
from .engine import NORMAL, RETURN, Obj, Outcome, State, Tup, Unsupported, fresh, zbool, zint

DAYUS = 86_400_000_000


def calendar(ex):
    ctx = ex.ctx
    cal = ctx.__dict__.get("calendar")
    if cal is not None:
        return cal
    ORD = z3.Function("ORD", z3.IntSort(), z3.IntSort(), z3.IntSort())
    y, m = z3.Ints("cal!y cal!m")
    leap = lambda yy: z3.And(yy % 4 == 0, z3.Or(yy % 100 != 0, yy % 400 == 0))
    dim = lambda yy, mm: z3.If(mm == 2, z3.If(leap(yy), 29, 28), z3.If(z3.Or(mm == 4, mm == 6, mm == 9, mm == 11), 30, 31))
    ctx.add_axiom(z3.ForAll([y, m], z3.Implies(z3.And(m >= 1, m < 12), ORD(y, m + 1) == ORD(y, m) + dim(y, m)), patterns=[ORD(y, m)]))
    ctx.add_axiom(z3.ForAll([y], ORD(y + 1, 1) == ORD(y, 12) + 31, patterns=[ORD(y, 12)]))
    ctx.add_axiom(z3.ForAll([y], ORD(y + 1, 1) == ORD(y, 12) + 31, patterns=[ORD(y + 1, 1)]))
    ctx.assumed.add("datetime: proleptic Gregorian ordinal axioms ORD(y,m+1)=ORD(y,m)+dim(y,m), ORD(y+1,1)=ORD(y,12)+31 (validated exhaustively against CPython by the C11 stand-in)")
    cal = {"ORD": ORD, "dim": dim}
    ctx.calendar = cal
    return cal


class DateV(Obj):
    """a datetime/date: absolute microseconds; (y, m, d) fields when built from components"""

    def __init__(self, abs_us, y=None, m=None, d=None, kind="datetime"):
        self.abs, self.y, self.m, self.d, self.kind = abs_us, y, m, d, kind

    def getattr(self, ex, name, st):
        if name in ("year", "month", "day") and self.y is not None:
            return {"year": self.y, "month": self.m, "day": self.d}[name]
        raise Unsupported(f"datetime.{name} of a value without calendar fields")


class TimedeltaV(Obj):
    def __init__(self, us):
        self.us = us

    def getattr(self, ex, name, st):
        if name == "days":
            return zint(self.us) / DAYUS      # floor division (positive divisor)
        raise Unsupported(f"timedelta.{name}")


def make_datetime(ex, st, node, y, m, d, *rest, kind="datetime"):
    cal = calendar(ex)
    y, m, d = zint(y), zint(m), zint(d)
    if rest:
        raise Unsupported("datetime with time-of-day components (use + timedelta in drivers)")
    # CPython raises ValueError for an invalid date: obligation
    ex.emit(st, "datetime", ex.node_name(node, "valid"), z3.And(y >= 1, y <= 9999, m >= 1, m <= 12, d >= 1, d <= cal["dim"](y, m)), ex.where(node))
    return DateV((cal["ORD"](y, m) + d - 1) * DAYUS, y, m, d, kind)


def make_timedelta(ex, st, node, *a, **kw):
    us = z3.IntVal(0)
    names = ["days", "seconds", "microseconds"]
    vals = dict(zip(names, a))
    vals.update(kw)
    for k, v in vals.items():
        f = {"days": DAYUS, "seconds": 1_000_000, "microseconds": 1, "hours": 3_600_000_000, "minutes": 60_000_000}[k]
        us = us + zint(v) * f
    return TimedeltaV(us)


class FmtStr(Obj):
    """string made of fixed-width integer fields and literals: parts = [("int", term, width|None) | ("lit", text)]"""

    def __init__(self, parts):
        self.parts = parts

    def widths(self, ex, st, node):
        ws = []
        for p in self.parts:
            if p[0] == "lit":
                ws.append(len(p[1]))
            else:
                w = p[2] if p[2] else 1
                ex.emit(st, "fmt", ex.node_name(node, "field_width"), z3.And(zint(p[1]) >= 0, zint(p[1]) <= 10 ** w - 1), ex.where(node))
                ws.append(w)
        return ws

    def getitem(self, ex, sl, st, node):
        ws = self.widths(ex, st, node)
        total = sum(ws)
        if isinstance(sl, ast.Slice):
            lo = ex.eval(sl.lower, st) if sl.lower else 0
            hi = ex.eval(sl.upper, st) if sl.upper else total
        else:
            i = ex.eval(sl, st)
            if not isinstance(i, int):
                raise Unsupported("symbolic string index")
            lo = i if i >= 0 else total + i
            hi = lo + 1
        if not (isinstance(lo, int) and isinstance(hi, int)):
            raise Unsupported("symbolic string slice")
        pos = 0
        out = []
        for p, w in zip(self.parts, ws):
            if lo <= pos and pos + w <= hi:
                out.append(p)
            elif not (pos + w <= lo or pos >= hi):
                if p[0] == "lit":
                    out.append(("lit", p[1][max(lo - pos, 0):hi - pos]))
                else:
                    raise Unsupported("slice cuts through a numeric field")
            pos += w
        return FmtStr(out)

    def to_int(self, ex):
        if len(self.parts) == 1 and self.parts[0][0] == "int":
            ex.ctx.assumed.add("int(f'{v:0Nd}') == v for 0 <= v < 10**N (format/parse round trip of CPython; validated by the C11 stand-in)")
            return self.parts[0][1]
        raise Unsupported("int() of a string that is not a single numeric field")

    def same(self, other):
        if len(self.parts) != len(other.parts):
            return False
        cs = []
        for a, b in zip(self.parts, other.parts):
            if a[0] != b[0]:
                return False
            if a[0] == "lit":
                if a[1] != b[1]:
                    return False
            else:
                cs.append(zint(a[1]) == zint(b[1]))
        return z3.And(*cs) if cs else True


def joined_str(ex, node, st):
    parts = []
    for v in node.values:
        if isinstance(v, ast.Constant):
            parts.append(("lit", str(v.value)))
        elif isinstance(v, ast.FormattedValue):
            val = ex.eval(v.value, st)
            if isinstance(val, FmtStr):
                parts.extend(val.parts)
                continue
            width = None
            if v.format_spec is not None:
                spec = "".join(c.value for c in v.format_spec.values if isinstance(c, ast.Constant))
                if not (spec.endswith("d") and spec.startswith("0")):
                    raise Unsupported(f"format spec {spec}")
                width = int(spec[1:-1])
            parts.append(("int", zint(val), width))
        else:
            raise Unsupported("f-string part")
    return FmtStr(parts)


class Instance(Obj):
    """instance of a repo class; methods/properties are executed from the real AST"""

    def __init__(self, cls_path, cls_name):
        self.cls_path, self.cls_name = cls_path, cls_name
        self.fields = {}

    def getattr(self, ex, name, st):
        if name in self.fields:
            return self.fields[name]
        fs = method_src(self, name)
        if fs is None:
            raise Unsupported(f"attribute {name} of {self.cls_name}")
        if any(isinstance(d, ast.Name) and d.id == "property" for d in fs.node.decorator_list):
            return call_method(ex, st, self, name, [])
        return BoundM(self, name)

    def setattr(self, ex, name, v, st):
        self.fields[name] = v

    def call_method(self, ex, name, node, st):
        args = [ex.eval(a, st) for a in node.args]
        return call_method(ex, st, self, name, args)


class BoundM:
    def __init__(self, inst, name):
        self.inst, self.name = inst, name


_SRC = {}


def method_src(inst, name):
    key = (inst.cls_path, inst.cls_name, name)
    if key not in _SRC:
        try:
            _SRC[key] = frontend.load(inst.cls_path, f"{inst.cls_name}.{name}")
        except frontend.BindingFailure:
            _SRC[key] = None
    return _SRC[key]


def call_method(ex, st, inst, name, args):
    fs = method_src(inst, name)
    if fs is None:
        raise Unsupported(f"{inst.cls_name}.{name} not found")
    sub = st.copy()
    sub.env = {}
    params = fs.params
    sub.env[params[0]] = inst
    for p, a in zip(params[1:], args):
        sub.env[p] = a
    sub.heap = st.heap
    saved_fsrc = ex.fsrc
    ex.fsrc = fs
    try:
        res = ex.exec_block(fs.body, sub)
    finally:
        ex.fsrc = saved_fsrc
    done = [(c, o) for c, o in res if o.kind in (RETURN, NORMAL)]
    if len(res) != 1 or len(done) != 1:
        raise Unsupported(f"{inst.cls_name}.{name}: {len(res)} paths (type dispatch must be concrete)")
    cur, oc = done[0]
    st.pc[:] = cur.pc
    ex.ctx.methods_executed = getattr(ex.ctx, "methods_executed", set())
    ex.ctx.methods_executed.add(f"{inst.cls_name}.{name}")
    return oc.value if oc.kind == RETURN else None


def instantiate(ex, st, cls_path, cls_name, args):
    inst = Instance(cls_path, cls_name)
    call_method(ex, st, inst, "__init__", args)
    return inst


def py_isinstance(ex, v, classes):
    names = []
    for c in (classes.items if isinstance(classes, Tup) else [classes]):
        names.append(getattr(c, "name", None) or getattr(c, "code", None) or str(c))
    kinds = set()
    for n in names:
        n = n.split(".")[-1].split("::")[-1]
        kinds.add(n)
    if isinstance(v, FmtStr) or isinstance(v, str):
        return "str" in kinds
    if isinstance(v, DateV):
        return "datetime" in kinds or "date" in kinds
    if isinstance(v, Instance):
        return v.cls_name in kinds
    if isinstance(v, bool):
        return "int" in kinds or "bool" in kinds
    if isinstance(v, int) or (z3.is_expr(v) and v.sort() == z3.IntSort()):
        return "int" in kinds
    if isinstance(v, TimedeltaV):
        return "timedelta" in kinds
    return False


DUNDER = {ast.Add: ("__add__", "__radd__"), ast.Sub: ("__sub__", "__rsub__")}
CMP = {ast.Eq: "__eq__", ast.NotEq: "__ne__", ast.Lt: "__lt__", ast.LtE: "__le__", ast.Gt: "__gt__", ast.GtE: "__ge__"}
SWAP = {ast.Lt: ast.Gt, ast.Gt: ast.Lt, ast.LtE: ast.GtE, ast.GtE: ast.LtE, ast.Eq: ast.Eq, ast.NotEq: ast.NotEq}


def obj_binop(ex, op, a, b, st, node):
    """binary operators on model objects; returns NotImplemented when not applicable"""
    t = type(op)
    if isinstance(a, Instance) and t in DUNDER:
        return call_method(ex, st, a, DUNDER[t][0], [b])
    if isinstance(b, Instance) and t in DUNDER:
        return call_method(ex, st, b, DUNDER[t][1], [a])
    if isinstance(a, DateV) and isinstance(b, TimedeltaV):
        if t is ast.Add:
            return DateV(a.abs + b.us)
        if t is ast.Sub:
            return DateV(a.abs - b.us)
    if isinstance(a, DateV) and isinstance(b, DateV) and t is ast.Sub:
        return TimedeltaV(a.abs - b.abs)
    if isinstance(a, TimedeltaV) and isinstance(b, TimedeltaV):
        if t is ast.Add:
            return TimedeltaV(a.us + b.us)
        if t is ast.Sub:
            return TimedeltaV(a.us - b.us)
    return NotImplemented


def obj_compare(ex, op, a, b, st):
    t = type(op)
    if isinstance(a, Instance) and t in CMP:
        if t is ast.NotEq:
            r = call_method(ex, st, a, "__eq__", [b])
            return (not r) if isinstance(r, bool) else z3.Not(zbool(r))
        return call_method(ex, st, a, CMP[t], [b])
    if isinstance(b, Instance) and t in CMP:
        return obj_compare(ex, SWAP[t](), b, a, st)
    if isinstance(a, DateV) and isinstance(b, DateV):
        x, y = a.abs, b.abs
        return {ast.Eq: x == y, ast.NotEq: x != y, ast.Lt: x < y, ast.LtE: x <= y, ast.Gt: x > y, ast.GtE: x >= y}[t]
    if isinstance(a, TimedeltaV) and isinstance(b, TimedeltaV):
        x, y = a.us, b.us
        return {ast.Eq: x == y, ast.NotEq: x != y, ast.Lt: x < y, ast.LtE: x <= y, ast.Gt: x > y, ast.GtE: x >= y}[t]
    if isinstance(a, FmtStr) and isinstance(b, FmtStr) and t in (ast.Eq, ast.NotEq):
        r = a.same(b)
        if t is ast.NotEq:
            return (not r) if isinstance(r, bool) else z3.Not(r)
        return r
    return NotImplemented

"""Back ends: discharge obligations (z3 in forked workers, cvc5 for z3's unknowns, ratfun for equalities)."""
import multiprocessing as mp
import os
import subprocess
import tempfile
import time

import z3

NPROC = int(os.environ.get("HDCV_JOBS", "16"))
DEFAULT_TIMEOUT = int(os.environ.get("HDCV_TIMEOUT_MS", "15000"))

_OBLS = []


def _solver_for(o, timeout, seed=0):
    s = z3.Solver()
    s.set("timeout", timeout)
    if seed:
        s.set("random_seed", seed)
    for a in o.axioms:
        s.add(a)
    for h in o.hyps:
        s.add(h)
    return s


def _work(i, conn, timeout, seed):
    o = _OBLS[i]
    t0 = time.time()
    try:
        by = o.by or {}
        if by.get("backend") == "ratfun":
            from . import ratfun
            ok, detail = ratfun.prove(o)
            conn.send(("discharged" if ok else "unknown", time.time() - t0, "ratfun", detail))
            return
        to = int(timeout)       # already includes the obligation's own budget (by["timeout"]) and the load factor, see discharge()
        if o.expect == "sat":
            s = _solver_for(o, min(to, 5000), seed)
            r = s.check()
            v = "covered" if r == z3.sat else ("vacuous" if r == z3.unsat else "cover-unknown")
            conn.send((v, time.time() - t0, "z3", ""))
            return
        # portfolio over sound encodings of the same obligation (first unsat wins)
        alts = list(getattr(o, "alternatives", []))
        variants = [("z3", o)] + [(f"z3/{nm}", alt) for nm, alt in alts]
        if by.get("nlabs") == "first":
            variants.insert(0, ("z3/nlabs", None))
        elif by.get("nlabs", True):
            variants.insert(1, ("z3/nlabs", None))
        if by.get("nlabs", True):
            # non-linear abstraction of the alternative encodings as well (no recursive unfolding + no NRA: the stable combination
            # for obligations that only need congruence; seed-independent where the single abstractions are not)
            extra = [(f"z3/nlabs+{nm}", ("abs", alt)) for nm, alt in alts]
            pos = 1 if by.get("nlabs") == "first" else 2
            variants[pos:pos] = extra
        pref = by.get("prefer")
        if pref:
            variants.sort(key=lambda x: 0 if x[0].endswith(pref) else 1)
        hint = _hints().get(o.id)
        if hint:
            # the encoding that discharged this obligation on the unchanged tree goes first (ordering only)
            variants.sort(key=lambda x: 0 if x[0] == hint else 1)
        notes = []
        built = {}
        # two passes: a short budget for every encoding first (most obligations need milliseconds in the right encoding), then the full one
        for budget in ([min(1500, to), to] if to > 1500 else [to]):
            for nm, v in variants:
                if nm not in built:
                    try:
                        built[nm] = _Abs(o) if v is None else (_Abs(v[1]) if isinstance(v, tuple) else v)
                    except Exception as exc:
                        notes.append(f"{nm}: abstraction failed ({exc})")
                        built[nm] = None
                v = built[nm]
                if v is None:
                    continue
                s = _solver_for(v, budget, seed)
                s.add(z3.Not(v.goal))
                r = s.check()
                if r == z3.unsat:
                    conn.send(("discharged", time.time() - t0, nm, "; ".join(notes)))
                    return
                if r == z3.sat and ("noax" in nm or "nlabs" in nm):
                    if budget == to:
                        notes.append(f"{nm}: sat without definitions (not a refutation)")
                    built[nm] = None
                    continue
                if r == z3.sat:
                    txt = _model_text(s.model())
                    try:
                        mi = _model_input(s.model(), getattr(o, "inputs", None)) if nm == "z3" else None
                    except Exception as exc:      # pragma: no cover
                        mi = None
                    if mi is not None:
                        import json as _json
                        txt = "MODEL-INPUT " + _json.dumps(mi) + "\n" + txt
                    conn.send(("refuted", time.time() - t0, nm, txt))
                    return
                if budget == to:
                    notes.append(f"{nm}: unknown ({s.reason_unknown()})")
        conn.send(("unknown", time.time() - t0, "z3", "; ".join(notes)))
    except Exception as exc:  # pragma: no cover
        conn.send(("error", time.time() - t0, "z3", f"{type(exc).__name__}: {exc}"))
    finally:
        conn.close()


_HINTS = None


def _hints():
    global _HINTS
    if _HINTS is None:
        import json
        try:
            with open(os.path.join(os.path.dirname(os.path.dirname(__file__)), "contracts", "variant_hints.json")) as fh:
                _HINTS = json.load(fh)
        except (FileNotFoundError, ValueError):
            _HINTS = {}
    return _HINTS


_NL = {}


def _nl_funcs(sort):
    key = sort.name()
    if key not in _NL:
        _NL[key] = (z3.Function("nl!mul", sort, sort, sort), z3.Function("nl!div", sort, sort, sort))
    return _NL[key]


def nl_abstract(t, cache=None):
    """Replace non-linear real/int multiplications and divisions by uninterpreted functions.

    Sound for proving (the uninterpreted reading admits every interpretation, including the real one);
    a `sat` answer of the abstraction means nothing."""
    cache = {} if cache is None else cache

    def numeral(x):
        return z3.is_rational_value(x) or z3.is_int_value(x)

    def go(e):
        k = e.get_id()
        if k in cache:
            return cache[k]
        if z3.is_quantifier(e):
            body = go(e.body())
            if body.eq(e.body()):
                r = e
            else:
                # rebuild quantifier with the same bound variables / patterns dropped
                vs = [z3.Const(e.var_name(i), e.var_sort(i)) for i in range(e.num_vars())]
                inst = z3.substitute_vars(body, *reversed(vs))
                r = z3.ForAll(vs, inst) if e.is_forall() else (z3.Exists(vs, inst) if e.is_exists() else z3.Lambda(vs, inst))
            cache[k] = r
            return r
        if not z3.is_app(e) or e.num_args() == 0:
            cache[k] = e
            return e
        ch = [go(c) for c in e.children()]
        kind = e.decl().kind()
        if kind == z3.Z3_OP_MUL and e.sort().kind() in (z3.Z3_REAL_SORT, z3.Z3_INT_SORT):
            nums = [c for c in ch if numeral(c)]
            rest = [c for c in ch if not numeral(c)]
            if len(rest) >= 2:
                mul, _ = _nl_funcs(e.sort())
                r = rest[0]
                for c in rest[1:]:
                    r = mul(r, c)
                for c in nums:
                    r = c * r
                cache[k] = r
                return r
        if kind == z3.Z3_OP_DIV and not numeral(ch[1]):
            _, div = _nl_funcs(e.sort())
            r = div(ch[0], ch[1])
            cache[k] = r
            return r
        r = e.decl()(*ch) if any(not a.eq(b) for a, b in zip(ch, e.children())) else e
        cache[k] = r
        return r
    return go(t)


class _Abs:
    def __init__(self, o):
        cache = {}
        self.hyps = [nl_abstract(h, cache) for h in o.hyps]
        self.goal = nl_abstract(o.goal, cache)
        self.axioms = [nl_abstract(a, cache) for a in o.axioms]


def _num(v):
    if z3.is_int_value(v):
        return v.as_long()
    if z3.is_rational_value(v):
        return float(v.numerator_as_long()) / float(v.denominator_as_long())
    if z3.is_true(v):
        return True
    if z3.is_false(v):
        return False
    if z3.is_algebraic_value(v):
        return float(v.approx(12).as_fraction())
    return None


def _model_input(m, inputs, cap=48):
    """concrete arguments of the function under contract from a solver model (index-type obligations)"""
    if not inputs:
        return None
    out = {}
    for inp in inputs:
        if "const" in inp:
            out[inp["name"]] = {"const": inp["const"], "type": inp["type"]}
            continue
        if inp["shape"] is None:
            out[inp["name"]] = {"value": _num(m.eval(inp["term"], model_completion=True)), "type": inp["type"]}
            continue
        dims = []
        for d in inp["shape"]:
            dv = d if isinstance(d, int) else _num(m.eval(d, model_completion=True))
            if dv is None or dv < 0 or dv > cap:
                return None
            dims.append(int(dv))
        import itertools as _it
        cells = []
        for idx in _it.product(*[range(d) for d in dims]):
            sel = z3.Select(inp["term"], *[z3.IntVal(i) for i in idx])
            cells.append(_num(m.eval(sel, model_completion=True)))
        out[inp["name"]] = {"shape": dims, "cells": cells, "type": inp["type"]}
    return out


def _model_text(m, limit=6000):
    parts = []
    for d in m.decls():
        nm = d.name()
        if "!" in nm and not nm.startswith(("k!",)) and d.arity() > 0:
            continue
        try:
            parts.append(f"{nm} = {m[d]}")
        except Exception:  # pragma: no cover
            pass
    txt = "\n".join(sorted(parts))
    return txt[:limit]


def smt2_text(o):
    s = _solver_for(o, 0)
    if o.expect != "sat":
        s.add(z3.Not(o.goal))
    return s.to_smt2()


def _cvc5(o, timeout_ms):
    txt = "(set-logic ALL)\n" + smt2_text(o)
    with tempfile.NamedTemporaryFile("w", suffix=".smt2", delete=False) as fh:
        fh.write(txt)
        path = fh.name
    try:
        p = subprocess.run(["/usr/bin/cvc5", f"--tlimit={timeout_ms}", path], capture_output=True, text=True, timeout=timeout_ms / 1000 + 10)
        out = p.stdout.strip().splitlines()
        return out[0] if out else "unknown"
    except Exception:
        return "unknown"
    finally:
        os.unlink(path)


def discharge(obls, timeout=None, retry=True, use_cvc5=True, progress=None):
    """Discharge all obligations in parallel; sets .verdict/.time/.backend/.detail on each."""
    global _OBLS
    timeout = timeout or DEFAULT_TIMEOUT
    _OBLS = obls
    _hints()          # loaded once in the parent, inherited by the forked workers
    ctx = mp.get_context("fork")
    pending = [i for i in range(len(obls)) if not getattr(obls[i], "presolved", False)]
    running = {}
    attempt = {i: 0 for i in range(len(obls))}

    def launch(i):
        parent, child = ctx.Pipe(duplex=False)
        seed = 0 if attempt[i] == 0 else 7919
        to = timeout if attempt[i] == 0 else timeout * 2
        own = (obls[i].by or {}).get("timeout")
        if own:
            to = max(to, int(own * float(os.environ.get("HDCV_LOAD_SCALE", "1"))))
        if (obls[i].by or {}).get("backend") == "ratfun":
            to = to * 4         # sympy normal forms are CPU-bound (7-20 s unloaded): a generous wall-clock limit, no verdict depends on it
        p = ctx.Process(target=_work, args=(i, child, to, seed))
        p.start()
        child.close()
        running[i] = (p, parent, time.time(), to)

    while pending or running:
        while pending and len(running) < NPROC:
            launch(pending.pop(0))
        done = []
        for i, (p, conn, t0, to) in list(running.items()):
            if conn.poll(0):
                try:
                    res = conn.recv()
                except EOFError:
                    res = ("error", time.time() - t0, "z3", "worker died")
                p.join()
                done.append((i, res))
            elif not p.is_alive():
                p.join()
                # the worker may have exited right after sending: look into the pipe again before calling it dead
                if conn.poll(0.5):
                    try:
                        done.append((i, conn.recv()))
                    except EOFError:
                        done.append((i, ("error", time.time() - t0, "z3", "worker died")))
                else:
                    done.append((i, ("error", time.time() - t0, "z3", "worker died")))
            elif time.time() - t0 > (to / 1000.0 * 1.3 + 1.5) * (2 + 2 * len(getattr(obls[i], 'alternatives', []))) + 20:
                p.kill()
                p.join()
                done.append((i, ("unknown", time.time() - t0, "z3", "hard timeout")))
        for i, res in done:
            del running[i]
            o = obls[i]
            v, t, be, detail = res
            o.time += t
            if retry and attempt[i] == 0 and (v == "error" or (v == "unknown" and (o.by or {}).get("backend") != "ratfun"
                                                                and not getattr(o, "alternatives", None))):
                attempt[i] = 1
                o.detail = f"first attempt: {v} ({detail}); "
                pending.append(i)
                continue
            o.verdict, o.backend = v, be
            o.detail = (o.detail or "") + (detail or "")
            if progress:
                progress(o)
        if not done:
            time.sleep(0.01)
    # second solver for what z3 left open
    if use_cvc5:
        for o in obls:
            if o.verdict == "unknown" and o.expect != "sat":
                t0 = time.time()
                r = _cvc5(o, min(timeout, 20000))
                o.time += time.time() - t0
                if r == "unsat":
                    o.verdict, o.backend = "discharged", "cvc5"
    return obls


def _closed(t, depth=0):
    """no de Bruijn variable escapes the term"""
    seen = {}

    def go(e, d):
        k = (e.get_id(), d)
        if k in seen:
            return seen[k]
        if z3.is_var(e):
            r = z3.get_var_index(e) < d
        elif z3.is_quantifier(e):
            r = go(e.body(), d + e.num_vars())
        else:
            r = all(go(c, d) for c in e.children())
        seen[k] = r
        return r
    return go(t, depth)


def delambda(hyps, goal, axioms):
    """z3's array-valued lambda terms are not SMT-LIB: every closed lambda is replaced by a fresh array constant with the
    quantified definition  forall k. c[k] = body(k)  (an equivalent formulation for a refutation check).  -> (hyps, goal, axioms)"""
    defs, cache, counter, keep = [], {}, [0], []

    def go(e):
        k = e.get_id()
        if k in cache:
            return cache[k]
        keep.append(e)
        if z3.is_quantifier(e) and e.is_lambda() and _closed(e):
            nv = e.num_vars()
            vs = [z3.Const(f"dl!k{counter[0]}_{i}", e.var_sort(i)) for i in range(nv)]
            body = go(z3.substitute_vars(e.body(), *reversed(vs)))
            c = z3.Const(f"dl!arr{counter[0]}", e.sort())
            counter[0] += 1
            defs.append(z3.ForAll(vs, z3.Select(c, *vs) == body))
            cache[k] = c
            return c
        if z3.is_quantifier(e):
            if e.is_lambda():
                raise ValueError("open lambda")
            vs = [z3.Const(f"dl!q{e.get_id()}_{i}", e.var_sort(i)) for i in range(e.num_vars())]
            body = go(z3.substitute_vars(e.body(), *reversed(vs)))
            r = z3.ForAll(vs, body) if e.is_forall() else z3.Exists(vs, body)
            cache[k] = r
            return r
        if not z3.is_app(e) or e.num_args() == 0:
            cache[k] = e
            return e
        ch = [go(c) for c in e.children()]
        r = e.decl()(*ch) if any(not a.eq(b) for a, b in zip(ch, e.children())) else e
        cache[k] = r
        return r
    h2 = [go(h) for h in hyps]
    g2 = go(goal)
    a2 = [go(a) for a in axioms]
    return h2 + defs, g2, a2


def _arity(srt):
    return z3.Z3_get_array_arity(srt.ctx_ref(), srt.ast) if srt.kind() == z3.Z3_ARRAY_SORT else 0


def _curried_sort(srt):
    if srt.kind() != z3.Z3_ARRAY_SORT:
        return srt
    n = _arity(srt)
    doms = [srt.domain_n(i) for i in range(n)]
    r = _curried_sort(srt.range())
    for d in reversed(doms):
        r = z3.ArraySort(d, r)
    return r


def curry(terms):
    """z3's multi-index arrays (Array Int Int Real) have no SMT-LIB counterpart: rewrite them as arrays of arrays.
    select(a, i, j) -> select(select(a', i), j); store likewise; constants and uninterpreted functions are re-declared over the
    nested sorts.  Lambdas must have been removed before (delambda)."""
    cache, decls, keep = {}, {}, []       # `keep` holds every visited AST: z3 ids of collected terms are reused

    def nsel(a, idx):
        for i in idx:
            a = z3.Select(a, i)
        return a

    def nstore(a, idx, v):
        if len(idx) == 1:
            return z3.Store(a, idx[0], v)
        return z3.Store(a, idx[0], nstore(z3.Select(a, idx[0]), idx[1:], v))

    def go(e):
        k = e.get_id()
        if k in cache:
            return cache[k]
        keep.append(e)
        if z3.is_var(e):
            raise ValueError("free variable")
        if z3.is_quantifier(e):
            if e.is_lambda():
                raise ValueError("lambda")
            vs = [z3.Const(f"cy!q{e.get_id()}_{i}", _curried_sort(e.var_sort(i))) for i in range(e.num_vars())]
            old = [z3.Const(f"cy!o{e.get_id()}_{i}", e.var_sort(i)) for i in range(e.num_vars())]
            body = z3.substitute_vars(e.body(), *reversed(old))
            for o_, n_ in zip(old, vs):
                keep.append(o_)
                cache[o_.get_id()] = n_
            b2 = go(body)
            r = z3.ForAll(vs, b2) if e.is_forall() else z3.Exists(vs, b2)
            cache[k] = r
            return r
        ch = [go(c) for c in e.children()]
        d = e.decl()
        kind = d.kind()
        if kind == z3.Z3_OP_SELECT:
            r = nsel(ch[0], ch[1:])
        elif kind == z3.Z3_OP_STORE:
            r = nstore(ch[0], ch[1:-1], ch[-1])
        elif kind == z3.Z3_OP_CONST_ARRAY:
            srt = e.sort()
            doms = [srt.domain_n(i) for i in range(_arity(srt))]
            r = ch[0]
            for dm in reversed(doms):
                r = z3.K(dm, r)
        elif kind == z3.Z3_OP_EQ:
            r = ch[0] == ch[1]
        elif kind == z3.Z3_OP_DISTINCT:
            r = z3.Distinct(*ch)
        elif kind == z3.Z3_OP_ITE:
            r = z3.If(ch[0], ch[1], ch[2])
        elif kind == z3.Z3_OP_UNINTERPRETED:
            dom = [d.domain(i) for i in range(d.arity())]
            if any(_arity(x) > 1 for x in dom + [d.range()]):
                key = d.name() + "!" + str([str(x) for x in dom])
                if key not in decls:
                    if d.arity() == 0:
                        decls[key] = z3.Const(d.name() + "!cy", _curried_sort(d.range()))
                    else:
                        decls[key] = z3.Function(d.name() + "!cy", *[_curried_sort(x) for x in dom], _curried_sort(d.range()))
                r = decls[key] if d.arity() == 0 else decls[key](*ch)
            else:
                r = d(*ch) if ch and any(not a.eq(b) for a, b in zip(ch, e.children())) else e
        else:
            if any(_arity(c.sort()) > 1 for c in e.children()) or _arity(e.sort()) > 1:
                raise ValueError(f"array operation {d.name()} on a multi-index array")
            r = d(*ch) if ch and any(not a.eq(b) for a, b in zip(ch, e.children())) else e
        cache[k] = r
        return r
    return [go(t) for t in terms]


def _cvc5_text(o):
    """SMT-LIB text for cvc5: lambdas removed; multi-index arrays stay unsupported"""
    try:
        hyps, goal, axioms = delambda(o.hyps, o.goal, getattr(o, "axioms", []))
    except Exception:
        return "(set-logic ALL)\n" + smt2_text(o)
    try:
        allt = curry(list(hyps) + [goal] + list(axioms))
        hyps, goal, axioms = allt[:len(hyps)], allt[len(hyps)], allt[len(hyps) + 1:]
    except Exception:
        pass        # left as it is: cvc5 will reject the multi-index sort and the obligation counts as unsupported
    s = z3.Solver()
    for a in axioms:
        s.add(a)
    for h in hyps:
        s.add(h)
    s.add(z3.Not(goal))
    txt = s.to_smt2()
    # uninterpreted special functions that share a name with cvc5's transcendental theory symbols
    import re as _re
    txt = _re.sub(r"(?<![\w!.$])(sqrt|cos|sin|tan|exp|arcsin|arccos|arctan|csc|sec|cot|pi)(?![\w!.$])", r"uf_\1", txt)
    return "(set-logic ALL)\n" + txt


def cross_check(obls, budget_s=1500, per_query_ms=10000, jobs=12):
    """Second opinion on discharged obligations: the plain SMT-LIB text of each one is given to cvc5 1.0.3.
    -> {"attempted", "confirmed_unsat", "undecided", "unsupported", "disagree": [ids]}.  `undecided` (timeout / unknown) and
    `unsupported` (z3-only syntax such as multi-index arrays or lambdas) say nothing; `disagree` means cvc5 answered `sat`."""
    from concurrent.futures import ThreadPoolExecutor
    cand = [o for o in obls if o.expect != "sat" and o.verdict == "discharged" and (o.backend or "").startswith("z3") and not getattr(o, "presolved", False)]
    t0 = time.time()
    texts = []
    for o in cand:
        if time.time() - t0 > budget_s / 2:
            break
        try:
            texts.append((o, _cvc5_text(o)))       # text generation uses the z3 API: main thread only
        except Exception:
            continue

    def run(item):
        o, txt = item
        if time.time() - t0 > budget_s:
            return o, "skipped"
        with tempfile.NamedTemporaryFile("w", suffix=".smt2", delete=False) as fh:
            fh.write(txt)
            path = fh.name
        try:
            p = subprocess.run(["/usr/bin/cvc5", f"--tlimit={per_query_ms}", path], capture_output=True, text=True, timeout=per_query_ms / 1000 + 10)
            out = (p.stdout.strip().splitlines() or ["unknown"])[0]
            return o, out
        except Exception:
            return o, "unknown"
        finally:
            os.unlink(path)

    with ThreadPoolExecutor(jobs) as ex:
        res = list(ex.map(run, texts))
    out = {"solver": "cvc5 1.0.3", "candidates": len(cand), "attempted": 0, "confirmed_unsat": 0, "undecided": 0, "unsupported": 0, "disagree": [],
           "seconds": 0.0}
    for o, r in res:
        if r == "skipped":
            continue
        out["attempted"] += 1
        if r == "unsat":
            out["confirmed_unsat"] += 1
        elif r == "sat":
            out["disagree"].append(o.id)
        elif r.startswith("(error"):
            out["unsupported"] += 1
        else:
            out["undecided"] += 1
    out["seconds"] = round(time.time() - t0, 1)
    return out

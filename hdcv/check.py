"""Per-property check:  python3-vt -m hdcv.check <ID> [--tier quick|thorough] [--replay FILE]

exit 0  property held on everything explored (KNOWN-FINDING lines allowed)
exit 1  VIOLATION property=<id> replay=<path> [... no-failing-input-found]
exit 3  checker error (never a violation)
"""
import argparse
import hashlib
import importlib
import json
import os
import re
import subprocess
import sys
import time
import traceback

from . import REPO, VENV_PY, VERIF

sys.path.insert(0, VERIF)


OUT = os.environ.get("HDCV_OUT", VERIF)     # where evidence/ and replays/ are written (default: /verif)


def slug(s):
    return re.sub(r"[^A-Za-z0-9_.-]+", "_", s)[:120]


def load_known():
    p = os.path.join(VERIF, "known_findings.json")
    if not os.path.exists(p):
        return []
    with open(p) as fh:
        return json.load(fh).get("findings", [])


def run_standin(pid, tier, seed, extra=None):
    """Bounded run-time contract checks on the real (compiled + interpreted) code, under /venv."""
    os.makedirs(os.path.join(OUT, "evidence"), exist_ok=True)
    out = os.path.join(OUT, "evidence", f".standin_{pid}.json")
    if os.path.exists(out):
        os.unlink(out)
    cmd = [VENV_PY, os.path.join(VERIF, "standin", "run.py"), pid, "--tier", tier, "--seed", str(seed), "--out", out]
    if extra:
        cmd += extra
    env = dict(os.environ)
    env["PYTHONPATH"] = REPO + os.pathsep + VERIF + os.pathsep + env.get("PYTHONPATH", "")
    env.setdefault("NUMBA_CACHE_DIR", os.path.join(VERIF, ".numba_cache"))
    t0 = time.time()
    try:
        p = subprocess.run(cmd, capture_output=True, text=True, env=env, cwd=VERIF,
                           timeout=int(os.environ.get("HDCV_STANDIN_TIMEOUT", "3000")))
    except subprocess.TimeoutExpired:
        return {"error": "stand-in timed out", "violations": [], "evaluations": 0, "wall_s": time.time() - t0}
    if not os.path.exists(out):
        return {"error": f"stand-in crashed (rc={p.returncode}): {p.stderr[-3000:]}", "violations": [], "evaluations": 0,
                "wall_s": time.time() - t0}
    with open(out) as fh:
        res = json.load(fh)
    os.unlink(out)
    res["wall_s"] = time.time() - t0
    return res


def main(argv=None):
    ap = argparse.ArgumentParser()
    ap.add_argument("pid")
    ap.add_argument("--tier", default=os.environ.get("VERIF_TIER", "quick"))
    ap.add_argument("--replay")
    ap.add_argument("--no-standin", action="store_true")
    ap.add_argument("--verbose", "-v", action="store_true")
    a = ap.parse_args(argv)
    seed = int(os.environ.get("VERIF_SEED", "0") or 0)
    tier = a.tier if a.tier in ("quick", "thorough") else "quick"
    pid = a.pid
    if a.replay:
        return replay(pid, a.replay)
    try:
        return check(pid, tier, seed, a)
    except SystemExit:
        raise
    except Exception:
        traceback.print_exc()
        print(f"CHECKER-ERROR property={pid}")
        return 3


def replay(pid, path):
    with open(path) as fh:
        rp = json.load(fh)
    print(json.dumps({k: rp[k] for k in rp if k != "solver_output"}, indent=1)[:4000])
    if rp.get("input") is None:
        print("no concrete input recorded (no-failing-input-found); obligation:", rp.get("obligation"))
        return 0
    res = run_standin(pid, "quick", 0, ["--replay", path])
    print(json.dumps(res, indent=1)[:4000])
    return 1 if res.get("violations") else 0


def check(pid, tier, seed, a):
    from . import smt, spec, verify
    import contracts.base  # noqa
    from contracts import props
    t_start = time.time()
    P = props.PROPS[pid]
    for m in P.get("modules", []):
        importlib.import_module(m)
    timeout = int(os.environ.get("HDCV_TIMEOUT_MS", "15000")) * (3 if tier == "thorough" else 1)
    # solver budgets are wall-clock: on a machine that is busy with other work they are stretched by the load factor, so that a
    # verdict does not flip because sixteen other processes share the cores (measured: at load 4 an obligation that needs 1.2 s
    # of z3 time missed a 15 s budget)
    try:
        load = os.getloadavg()[0] / max(1, os.cpu_count() or 1)
    except OSError:
        load = 1.0
    scale = min(8.0, max(1.0, load))
    timeout = int(timeout * scale)
    os.environ["HDCV_LOAD_SCALE"] = f"{scale:.2f}"

    # ---------------------------------------------------------------- deductive part
    results = []
    obls = []
    keys = list(P["contracts_fn"]() if "contracts_fn" in P else P.get("contracts", []))
    if tier == "thorough":
        keys += list(P.get("contracts_thorough", []))       # contracts whose generation takes too long for the every-change tier
    for key in keys:
        variant = "default"
        if "@" in key:
            key, variant = key.split("@")
        c = spec.REGISTRY[(key, variant)]
        r = verify.verify_portfolio(c)
        results.append(r)
        if r.ctx is not None:
            for o in r.ctx.obls:
                o.func = c.short
                o.contract_obj = c
                o.param_order = r.fsrc.params if r.fsrc else []
                if r.error is None:
                    obls.append(o)
    lemma_names = set(P.get("lemmas", []))
    for r in results:
        if r.ctx is not None:
            lemma_names |= getattr(r.ctx, "used_lemmas", set())
    for ln in sorted(lemma_names):
        for o in verify.prove_lemma(spec.LEMMAS[ln]):
            o.func = "lemma:" + ln
            obls.append(o)
    smt.discharge(obls, timeout=timeout, use_cvc5=True)

    xcheck = None
    if tier == "thorough" and os.environ.get("HDCV_CROSS_CHECK", "1") != "0":
        # thorough tier: an independent solver looks at what z3 discharged (z3 5.1 has had an unsound corner, DESIGN.md section 0.3)
        xcheck = smt.cross_check(obls)

    crashes = [r for r in results if r.error and r.error[0] == "crash"]
    bindfail = [r for r in results if r.error and r.error[0] in ("binding", "unsupported")]
    failed = [o for o in obls if o.expect != "sat" and o.verdict != "discharged"]
    vacuous = [o for o in obls if o.expect == "sat" and o.verdict == "vacuous" and not o.id.endswith("/vacuity/exit_reachable")]
    # no return path is reachable under the contract's precondition (e.g. an assertion that always fails): the function cannot
    # deliver what the property promises -- a violated obligation, not a checker problem
    no_exit = [o for o in obls if o.expect == "sat" and o.verdict == "vacuous" and o.id.endswith("/vacuity/exit_reachable")]
    solver_err = [o for o in failed if o.verdict == "error"]
    n_proof_obl = len([o for o in obls if o.expect != "sat"])
    n_discharged = len([o for o in obls if o.expect != "sat" and o.verdict == "discharged"])

    # ---------------------------------------------------------------- bounded stand-in
    st_res = None
    if P.get("standin") and not a.no_standin:
        st_res = run_standin(pid, tier, seed)

    # ---------------------------------------------------------------- verdict
    known = [k for k in load_known() if k.get("property") == pid and k.get("status") == "known"]
    lines = []
    violations = []

    def is_known(kind, ident, inp):
        for k in known:
            if k.get("kind") != kind:
                continue
            if not re.search(k["match"], ident):
                continue
            pred = k.get("input_predicate")
            if pred and kind == "standin":
                if not inp or not inp.get("tags") or pred not in inp.get("tags"):
                    continue
            return k
        return None

    for o in no_exit:
        path = os.path.join(OUT, "replays", f"{pid}-{slug(o.id)}.json")
        os.makedirs(os.path.dirname(path), exist_ok=True)
        with open(path, "w") as fh:
            json.dump({"property": pid, "obligation": o.id, "kind": "vacuity", "function": getattr(o, "func", None),
                       "solver_output": "no return path of the function is reachable under the contract's precondition (unsat)", "input": None}, fh, indent=1)
        violations.append((o.id, path, False))
    if st_res and st_res.get("error") and re.search(r"crashed \(rc=-\d+\)", st_res["error"]):
        # the process running the real (compiled) code was killed by a signal (memory corruption, abort): the code under test failed
        path = os.path.join(OUT, "replays", f"{pid}-standin-process_abort.json")
        os.makedirs(os.path.dirname(path), exist_ok=True)
        with open(path, "w") as fh:
            json.dump({"property": pid, "obligation": "bounded:process_abort", "found_by": "bounded", "input": None, "solver_output": st_res["error"][:2000]}, fh, indent=1)
        violations.append(("bounded:process_abort", path, False))
        st_res = dict(st_res, error=None)
    n_cex = [0]
    st_viol = (st_res or {}).get("violations", [])
    # violations found by the stand-in (replayed input on the real code)
    used_inputs = set()
    for o in failed:
        if o.verdict == "error":
            continue
        k = is_known("obligation", o.id, None)
        if k:
            lines.append(f"KNOWN-FINDING: property={pid} {k['what']} [obligation {o.id}]")
            continue
        # look for a concrete failing input produced by the stand-in for this function
        inp = None
        for i, v in enumerate(st_viol):
            if v.get("func") in (o.func, None) or o.func.split("[")[0] in (v.get("funcs") or []):
                if is_known("standin", v.get("check", ""), v):
                    continue
                inp = v
                used_inputs.add(i)
                break
        model_input = None
        cex_note = None
        cobj = getattr(o, "contract_obj", None)
        if inp is None and cobj is not None and not cobj.key.startswith("ghost:") and o.kind in ("index", "written", "slice", "shape", "div", "own") \
                and n_cex[0] < 3:
            # bounded counterexample search on the same AST (no invariants, small concrete sizes), then replay
            from . import cex
            n_cex[0] += 1
            try:
                model_input, cex_note = cex.search(o, cobj, budget_s=40)
            except Exception as exc:
                model_input, cex_note = None, f"counterexample search failed: {type(exc).__name__}: {exc}"
        rp = {"property": pid, "obligation": o.id, "kind": o.kind, "where": o.where, "function": o.func, "float_model": o.fmodel,
              "verdict": o.verdict, "backend": o.backend, "solver_output": o.detail, "input": inp,
              "replay": f"python3-vt -m hdcv.check {pid} --replay <this file>", "counterexample_search": str(cex_note) if cex_note is not None else None,
              "smt2_sha": hashlib.sha256(smt.smt2_text(o).encode()).hexdigest()[:16]}
        path = os.path.join(OUT, "replays", f"{pid}-{slug(o.id)}.json")
        os.makedirs(os.path.dirname(path), exist_ok=True)
        replayed = False
        if model_input is not None:
            cobj = getattr(o, "contract_obj", None)
            if cobj is not None and not cobj.key.startswith("ghost:"):
                rp.update({"model_input": model_input, "function_key": cobj.key, "param_order": list(getattr(o, "param_order", [])), "outputs": list(cobj.modifies)})
                with open(path, "w") as fh:
                    json.dump(rp, fh, indent=1, default=str)
                outp = path + ".out"
                env = dict(os.environ)
                env["PYTHONPATH"] = REPO + os.pathsep + VERIF
                try:
                    subprocess.run([VENV_PY, os.path.join(VERIF, "standin", "model_replay.py"), path, outp], env=env, capture_output=True, timeout=600)
                    with open(outp) as fh:
                        rr = json.load(fh)
                    os.unlink(outp)
                except Exception as exc:
                    rr = {"reproduced": False, "what": f"replay failed: {exc}"}
                rp["model_replay"] = rr
                replayed = bool(rr.get("reproduced"))
        with open(path, "w") as fh:
            json.dump(rp, fh, indent=1, default=str)
        violations.append((o.id, path, inp is not None or replayed))
    for i, v in enumerate(st_viol):
        if i in used_inputs:
            continue
        k = is_known("standin", v.get("check", ""), v)
        if k:
            lines.append(f"KNOWN-FINDING: property={pid} {k['what']} [stand-in {v.get('check')}]")
            continue
        path = os.path.join(OUT, "replays", f"{pid}-standin-{slug(v.get('check', 'x'))}.json")
        os.makedirs(os.path.dirname(path), exist_ok=True)
        with open(path, "w") as fh:
            json.dump({"property": pid, "obligation": f"bounded:{v.get('check')}", "found_by": "bounded", "input": v,
                       "replay": f"python3-vt -m hdcv.check {pid} --replay <this file>"}, fh, indent=1, default=str)
        violations.append((f"bounded:{v.get('check')}", path, True))

    # ---------------------------------------------------------------- evidence
    level = P.get("level", "proof")
    proof_lost = bool(bindfail)
    funcs = []
    for r in results:
        f = {"contract": r.contract.short, "key": r.contract.key, "float_model": r.contract.fmodel,
             "source_sha": r.fsrc.sha if r.fsrc else None, "paths": r.paths, "error": r.error,
             "obligations": len([o for o in obls if getattr(o, "func", None) == r.contract.short and o.expect != "sat"])}
        funcs.append(f)
    by_kind = {}
    for o in obls:
        by_kind.setdefault(o.kind, [0, 0])
        by_kind[o.kind][0] += 1
        by_kind[o.kind][1] += 1 if o.verdict in ("discharged", "covered", "cover-unknown") else 0
    assumed = set()
    for r in results:
        if r.ctx is not None:
            assumed |= set(r.ctx.assumed)
            for n in r.ctx.notes:
                assumed.add("note: " + n)
    samples = []
    for o in obls[:3] + [o for o in obls if o.kind in ("post", "cast")][:3]:
        txt = smt.smt2_text(o)
        samples.append({"obligation": o.id, "verdict": o.verdict, "backend": o.backend, "smt2_head": txt[:600], "smt2_len": len(txt)})
    from . import frontend
    ev = {
        "property_id": pid, "tier": tier, "seed": seed, "level": level if not proof_lost else "other",
        "coverage": {
            "obligations": n_proof_obl, "discharged": n_discharged,
            "checker_cmd": f"python3-vt -m hdcv.check {pid} --tier {tier}",
            "trusted_base": sorted(assumed) + P.get("trusted", []),
            "explanation": P.get("explanation", ""),
            "functions_under_contract": funcs,
            "obligations_by_kind": {k: {"generated": v[0], "ok": v[1]} for k, v in by_kind.items()},
            "obligation_list": [{"id": o.id, "verdict": o.verdict, "backend": o.backend, "s": round(o.time, 3), "model": o.fmodel} for o in obls],
            "solver_seconds": round(sum(o.time for o in obls), 2),
            "vacuity": {"covers": len([o for o in obls if o.expect == "sat"]), "vacuous": [o.id for o in vacuous],
                        "cover_unknown": len([o for o in obls if o.verdict == "cover-unknown"])},
            "samples": samples,
            "extraction_drops": frontend.DROPPED,
            "bounded_standin": ({k: st_res.get(k) for k in ("bound", "evaluations", "distinct_nontrivial", "rule", "samples", "checks", "error", "wall_s", "notes")}
                                if st_res else None),
            "solver_budget_ms_per_encoding": timeout, "load_scale": scale,
            "cross_check": xcheck,
            "proof_lost": proof_lost,
            "binding_failures": [r.error for r in bindfail],
            "not_proved_parts": P.get("not_proved", []),
        },
        "assumptions": P.get("assumptions", []) + ["Numba-compiled code implements the Python source (C13: not applicable, assumed)"]
        + [f"float model per contract: {r.contract.short}={r.contract.fmodel}" for r in results],
        "wall_s": round(time.time() - t_start, 2),
        "violations": len(violations),
    }
    if not samples and st_res:
        ev["coverage"]["samples"] = st_res.get("samples") or [{"note": "no sample recorded"}]
    if st_res:
        ev["coverage"]["evaluations"] = int(st_res.get("evaluations", 0))
        ev["coverage"]["distinct_nontrivial"] = int(st_res.get("distinct_nontrivial", 0))
        ev["coverage"]["rule"] = st_res.get("rule", "")
    os.makedirs(os.path.join(OUT, "evidence"), exist_ok=True)
    with open(os.path.join(OUT, "evidence", f"{pid}.json"), "w") as fh:
        json.dump(ev, fh, indent=1, default=str)
    try:
        import jsonschema
        with open("/root/.vp/EVIDENCE.schema.json") as fh:
            jsonschema.validate(json.loads(json.dumps(ev, default=str)), json.load(fh))
    except FileNotFoundError:
        pass
    except Exception as exc:
        print("CHECKER-ERROR evidence does not validate:", str(exc)[:300])

    # ---------------------------------------------------------------- report
    for ln in dict.fromkeys(re.sub(r" \[(stand-in|obligation) [^\]]*\]$", "", x) for x in lines):
        print(ln)
    if a.verbose or violations or crashes or bindfail:
        for o in obls:
            if o.verdict not in ("discharged", "covered", "cover-unknown"):
                print(f"  {o.verdict:10s} {o.time:6.1f}s {o.id}  {o.detail[:200]}")
    print(f"[{pid}] obligations {n_discharged}/{n_proof_obl} discharged; functions {len(results)}; "
          f"stand-in evaluations {(st_res or {}).get('evaluations', 0)}; wall {ev['wall_s']}s")
    if xcheck:
        print(f"[{pid}] cross-check by {xcheck['solver']}: {xcheck['confirmed_unsat']} of {xcheck['attempted']} z3-discharged obligations confirmed unsat, "
              f"{xcheck['undecided']} undecided, {xcheck['unsupported']} outside its input language, {len(xcheck['disagree'])} disagreements; {xcheck['seconds']}s")
        for oid in xcheck["disagree"]:
            print("CHECKER-ERROR solver disagreement (z3: unsat, cvc5: sat) on", oid)
    if crashes or solver_err or vacuous or (st_res and st_res.get("error")) or (xcheck and xcheck["disagree"]):
        for r in crashes:
            print("CHECKER-ERROR", r.contract.short, r.error[1][:2000])
        for o in solver_err:
            print("CHECKER-ERROR solver", o.id, o.detail[:300])
        for o in vacuous:
            print("CHECKER-ERROR vacuous precondition", o.id)
        if st_res and st_res.get("error"):
            print("CHECKER-ERROR stand-in", st_res["error"][:3000])
        if not violations:
            return 3
    for r in bindfail:
        print(f"UNDECIDED-BY-PROOF {r.contract.short}: {r.error[0]}: {r.error[1][:300]} (bounded stand-in decides)")
    if violations:
        seen = set()
        for oid, path, has_input in violations:
            if path in seen:
                continue
            seen.add(path)
            print(f"VIOLATION property={pid} replay={path} obligation={oid}" + ("" if has_input else " no-failing-input-found"))
        return 1
    return 0


if __name__ == "__main__":
    sys.exit(main())

"""Name resolution, call dispatch, assumed contracts of library functions (DESIGN.md §2.7),
and modular calls to repo functions (callee contract only)."""
import ast
import os

import z3

from . import REPO, frontend
from .engine import (sel, Arr, BoundMethod, CompRef, DtypeRef, FnRef, Lam, ModRef, Obj, PList, StrV, Tup, Unsupported, fresh,
                     is_concrete, is_int, zbool, zint, DTYPE_ALIASES, RETURN, NORMAL, RAISE, State)
from .loops import RangeV

BUILTINS = {"slice", "range", "len", "abs", "min", "max", "int", "float", "round", "pow", "isinstance", "bool", "str", "hash", "sum"}
MODULES = {"numpy": "numpy", "numba": "numba", "scipy.special": "scipy.special", "math": "math", "dask.array": "dask.array",
           "xarray": "xarray", "pandas": "pandas"}


def resolve_name(ex, name):
    fs = ex.fsrc
    if fs is not None:
        imports = frontend.module_imports(fs.module_ast)
        if name in imports:
            origin = imports[name]
            if origin in MODULES:
                return ModRef(MODULES[origin])
            if origin.startswith("hdc."):
                # absolute import of a repo name (used by the ghost drivers in the sidecars)
                mod, _, attr = origin.rpartition(".")
                cand = mod.replace(".", "/") + ".py"
                if os.path.exists(os.path.join(REPO, cand)):
                    import ast as _ast
                    with open(os.path.join(REPO, cand)) as fh:
                        tree = _ast.parse(fh.read())
                    for n in tree.body:
                        if isinstance(n, _ast.ClassDef) and n.name == attr:
                            return FnRef(f"repoclass:{cand}::{attr}")
                        if isinstance(n, _ast.FunctionDef) and n.name == attr:
                            return FnRef(f"repo:{cand}::{attr}")
            if origin.startswith("."):
                # relative import of a repo function
                level = len(origin) - len(origin.lstrip("."))
                rest = origin.lstrip(".")
                mod, _, attr = rest.rpartition(".")
                base = os.path.dirname(fs.path)
                for _ in range(level - 1):
                    base = os.path.dirname(base)
                cand = os.path.join(base, *(mod.split(".") if mod else [])) + ".py"
                if os.path.exists(os.path.join(REPO, cand)):
                    const = _module_constant(cand, attr)
                    if const is not None:
                        return const
                    return FnRef(f"repo:{cand}::{attr}")
                cand2 = os.path.join(base, *(rest.split("."))) + ".py"
                if os.path.exists(os.path.join(REPO, cand2)):
                    return ModRef("repo:" + cand2)
                return FnRef(f"repo:?{origin}")
            return FnRef(origin)
        # same-module constants and definitions
        for n in fs.module_ast.body:
            if isinstance(n, ast.Assign) and len(n.targets) == 1 and isinstance(n.targets[0], ast.Name) and n.targets[0].id == name \
                    and isinstance(n.value, ast.Constant) and isinstance(n.value.value, (int, float)):
                return n.value.value
        for n in fs.module_ast.body:
            if isinstance(n, ast.FunctionDef) and n.name == name:
                return FnRef(f"repo:{fs.path}::{name}")
            if isinstance(n, ast.ClassDef) and n.name == name:
                return FnRef(f"repoclass:{fs.path}::{name}")
    if name in BUILTINS:
        return FnRef("builtins." + name)
    if name in ("float64", "float32", "int64", "int32", "int16", "int8", "uint8"):
        return FnRef("numba.core.types." + name)
    if name == "True":
        return True
    return None


def _module_constant(relpath, name):
    """NAME = <numeric literal> at module level of a repo file"""
    try:
        with open(os.path.join(REPO, relpath)) as fh:
            tree = ast.parse(fh.read())
    except (OSError, SyntaxError):
        return None
    for n in tree.body:
        if isinstance(n, ast.Assign) and len(n.targets) == 1 and isinstance(n.targets[0], ast.Name) and n.targets[0].id == name \
                and isinstance(n.value, ast.Constant) and isinstance(n.value.value, (int, float)) and not isinstance(n.value.value, bool):
            return n.value.value
    return None


def resolve_attr(ex, mod, attr):
    full = f"{mod.name}.{attr}"
    if full in ("numpy.pi", "math.pi"):
        return ex.fm.call("PI") if ex.fm.name == "U" else z3.RealVal("3.14159265358979323846264338327950288")
    if full == "numpy.nan":
        return NaNV()
    if full in ("numpy.inf", "math.inf", "numpy.Inf"):
        # +infinity: a distinguished constant about which only isinf(.) is known (over-approximation: comparisons with it are
        # not decided by the model, both outcomes are explored)
        ex.ctx.assumed.add("numpy.inf: a distinguished constant with isinf(.) only (comparisons against it are not decided)")
        c = z3.Const("np!inf", ex.fm.sort) if ex.fm.name == "U" else z3.Real("np!inf")
        ax = ex.fm.isinf(c)
        if not any(a.eq(ax) for a in ex.ctx.axioms):
            ex.ctx.add_axiom(ax)
        return c
    if mod.name == "numpy" and attr in DTYPE_ALIASES:
        return DtypeRef(DTYPE_ALIASES[attr])
    return FnRef(full)


class NaNV:
    pass


def dtype_of(ex, v, default="f8"):
    if v is None:
        return default
    if isinstance(v, DtypeRef):
        return v.code
    if isinstance(v, str):
        return DTYPE_ALIASES[v]
    if isinstance(v, FnRef):
        return DTYPE_ALIASES[v.name.split(".")[-1]]
    raise Unsupported(f"dtype {v!r}")


def shape_of(ex, v):
    if isinstance(v, (Tup, PList)):
        return tuple(v.items)
    if isinstance(v, Arr):
        raise Unsupported("array as shape")
    return (v,)


def _select_terms(e, var):
    """select/function applications in e that mention var directly as an argument (candidate triggers)."""
    out = []
    seen = set()

    def walk(t):
        if t.get_id() in seen:
            return
        seen.add(t.get_id())
        if z3.is_app(t):
            if t.decl().kind() in (z3.Z3_OP_SELECT, z3.Z3_OP_UNINTERPRETED) and any(c.eq(var) for c in t.children()):
                out.append(t)
            for c in t.children():
                walk(c)
    walk(e)
    return out


def qforall(vs, body, pats=None):
    """ForAll with patterns when z3 accepts them, plain otherwise."""
    if pats:
        try:
            return z3.ForAll(vs, body, patterns=pats)
        except z3.Z3Exception:
            pass
    return z3.ForAll(vs, body)


# ----------------------------------------------------------------------------- call dispatch
def call(ex, node, st):
    f = node.func
    if ex.spec_mode:
        from . import spec
        r = spec.spec_call(ex, node, st)
        if r is not NotImplemented:
            return r
    if isinstance(f, ast.Attribute):
        recv = ex.eval(f.value, st)
        if isinstance(recv, ModRef):
            target = resolve_attr(ex, recv, f.attr)
        elif isinstance(recv, Arr):
            return array_method(ex, st, recv, f.attr, node)
        elif isinstance(recv, Obj):
            return recv.call_method(ex, f.attr, node, st)
        elif isinstance(recv, PList) and f.attr == "append":
            if not isinstance(f.value, ast.Name):
                raise Unsupported("append on expression")
            v = ex.eval(node.args[0], st)
            st.env[f.value.id] = PList(recv.items + [v])
            return None
        else:
            raise Unsupported(f"method .{f.attr} on {type(recv).__name__} at {ex.where(node)}")
    else:
        target = ex.eval(f, st)
    from .engine import FuncClosure
    if isinstance(target, FuncClosure):
        return ex.call_closure(target, [ex.eval(a, st) for a in node.args], st)
    if isinstance(target, Lam):
        args = [ex.eval(a, st) for a in node.args]
        sub = st.copy()
        sub.env = dict(target.env)
        for p, a in zip(target.node.args.args, args):
            sub.env[p.arg] = a
        sub.heap = st.heap
        return ex.eval(target.node.body, sub)
    if isinstance(target, DtypeRef):
        return cast_scalar(ex, st, target.code, ex.eval(node.args[0], st))
    if not isinstance(target, FnRef):
        raise Unsupported(f"call of {type(target).__name__} at {ex.where(node)}")
    name = target.name
    if name.startswith("repoclass:"):
        from . import pymodel
        path, cname = name[len("repoclass:"):].split("::")
        return pymodel.instantiate(ex, st, path, cname, [ex.eval(a, st) for a in node.args])
    if name.startswith("repo:"):
        return repo_call(ex, st, name[5:], node)
    h = LIB.get(name)
    if h is None and name.split(".")[0] in ("scipy", "math", "numpy") and not node.keywords:
        # a pure library function that has no model: uninterpreted function of its (scalar) arguments.
        # Sound (nothing is assumed about it) and keeps a changed source inside the verifier's subset.
        args = [ex.eval(a, st) for a in node.args]
        if args and all(not isinstance(a, (Arr, Tup, PList, Obj)) and a is not None for a in args):
            ex.ctx.assumed.add(f"{name}: uninterpreted (no contract)")
            return ex.fm.call(name.replace(".", "_"), *[ex.tofloat(a) for a in args])
    if h is None:
        if ex.ctx.options.get("slicing_mode"):
            ex.ctx.assumed.add(f"opaque:{name}")
            return Opaque(name)
        raise Unsupported(f"library call {name} at {ex.where(node)}")
    ex.ctx.assumed.add(name)
    args = [ex.eval(a, st) for a in node.args]
    kwargs = {k.arg: ex.eval(k.value, st) for k in node.keywords}
    return h(ex, st, node, *args, **kwargs)


class Opaque(Obj):
    def __init__(self, tag):
        self.tag = tag


def cast_scalar(ex, st, code, v):
    if code in ("f8", "f4"):
        return ex.tofloat(v) if not is_concrete(v) else (v if not isinstance(v, bool) else int(v)) if ex.fm.name != "U" and False else ex.tofloat(v)
    if code == "b1":
        return zbool(v)
    if ex.isfloat(v):
        return ex.f2i_trunc(v)
    return v if is_concrete(v) else zint(v)


# ----------------------------------------------------------------------------- repo calls (modular)
def repo_call(ex, st, key, node):
    from .spec import REGISTRY
    variant = ex.c.call_variant.get(key, ex.c.call_variant.get(key.split("::")[-1], None))
    c = None
    own = ex.c.call_variant.get("__self__", ex.c.variant)
    for v in ([variant] if variant else []) + [own, own.split("_")[0], own[:3], "default"]:
        if (key, v) in REGISTRY:
            c = REGISTRY[(key, v)]
            break
    if c is None:
        raise Unsupported(f"call to {key} which has no contract at {ex.where(node)}")
    if c.fmodel != ex.fm.name and c.fmodel not in ("any",):
        raise Unsupported(f"callee contract {c.short} is in model {c.fmodel}, caller in {ex.fm.name}")
    fs = frontend.load(c.path, c.qualname)
    argv = [ex.eval(a, st) for a in node.args]
    kw = {k.arg: ex.eval(k.value, st) for k in node.keywords}
    pnames = fs.params
    bound = {}
    for p, a in zip(pnames, argv):
        bound[p] = a
    for k, a in kw.items():
        bound[k] = a
    for p in pnames:
        if p not in bound:
            if p in fs.defaults:
                bound[p] = ex.eval(fs.defaults[p], State())
            else:
                raise Unsupported(f"missing argument {p}")
    return invoke_contract(ex, st, c, fs, bound, node)


def invoke_contract(ex, st, c, fs, bound, node, label=None):
    """Modular call: check the callee's requires, havoc its modifies, assume its ensures."""
    label = label or ex.node_name(node, "call")
    wh = ex.where(node) if node is not None else ""
    # callee spec state: params bound to actuals; dims bound by matching shapes
    cs = State()
    cs.pc = st.pc
    cs.heap = st.heap
    cs.written = st.written
    ghost = {}
    from .verify import parse_type
    for p, ty in c.params.items():
        t = parse_type(ty)
        a = bound[p]
        if t["kind"] == "array":
            if not isinstance(a, Arr):
                raise Unsupported(f"argument {p} of {c.short} must be an array")
            if a.ndim != len(t["dims"]):
                ex.emit(st, "pre@call", f"{c.short}/ndim_{p}", False, wh)
            for d, s in zip(t["dims"], a.shape):
                if isinstance(d, int):
                    ex.emit(st, "pre@call", f"{c.short}/dim_{p}", zint(s) == d, wh)
                elif d in ghost:
                    g = ghost[d]
                    if not ((isinstance(g, int) and isinstance(s, int) and g == s) or (z3.is_expr(g) and z3.is_expr(s) and g.eq(s))):
                        ex.emit(st, "pre@call", f"{c.short}/dim_{d}_{p}", zint(g) == zint(s), wh)
                else:
                    ghost[d] = s
        elif t["kind"] == "const":
            pass
        cs.env[p] = a
    for g, v in ghost.items():
        cs.env.setdefault(g, v)
    cs.old = {"env": dict(cs.env), "heap": dict(st.heap)}
    sub = type(ex)(ex.ctx, fs)
    sub.c = c
    sub.fname = ex.fname
    sub.obl_names = ex.obl_names
    for nm, e in c.requires.items():
        g = sub.spec_eval(e, cs)
        ex.emit(st, "pre@call", f"{c.short}/{nm}@{label}", g, wh)
    # havoc modified arrays
    for p in c.modifies:
        a = bound[p]
        if isinstance(a, Arr):
            root = a.root()
            st.heap[root.oid] = fresh(p, ex.ctx.arr_sort(root.dtype, root.ndim))
            if root.oid in st.written and p in c.track_written:
                pass
    # result
    res = None
    if c.result is not None:
        res = make_value(ex, st, c.result, cs.env, "ret_" + c.qualname.split(".")[-1])
    cs.heap = st.heap
    cs.env["result"] = res
    for nm, e in c.ensures.items():
        st.assume(zbool(sub.spec_eval(e, cs)), tag=f"call:{c.short}/{nm}")
    for nm, e in c.assumes.items():
        st.assume(zbool(sub.spec_eval(e, cs)), tag=f"call:{c.short}/{nm}")
    # determinism of pure callees: result is a function of the arguments
    if c.pure and res is not None and ex.ctx.options.get("valfn", True):
        add_valfn(ex, st, c, bound, res)
    ex.ctx.calls = getattr(ex.ctx, "calls", set())
    ex.ctx.calls.add(c.short)
    return res


def restrict(ex, st, a):
    """the array restricted to its own index range (a fixed default outside): two arrays that agree on every
    in-range cell have extensionally equal restrictions -- a function that reads only in-range cells cannot tell them apart"""
    if a.view is not None:
        a = ex.copy_array(st, a)
    term = st.heap[a.oid]
    ks = [z3.Int(f"k!rs{i}") for i in range(a.ndim)]
    rng = z3.And(*[z3.And(k >= 0, k < zint(n)) for k, n in zip(ks, a.shape)])
    if a.dtype in ("f8", "f4"):
        dflt = ex.fm.const(0)
    elif a.dtype == "b1":
        dflt = z3.BoolVal(False)
    else:
        dflt = z3.IntVal(0)
    cache = ex.ctx.__dict__.setdefault("restrict_cache", {})
    key = (term.get_id(), tuple(zint(n).get_id() for n in a.shape))
    if key in cache:
        cst, ax, keep = cache[key]
    else:
        # a fresh array constant with a quantified definition (pattern: its own cells): array extensionality
        # + this definition is how two restrictions are shown equal
        cst = fresh("rs", term.sort())
        ax = z3.ForAll(ks, sel(cst, *ks) == z3.If(rng, sel(term, *ks), dflt), patterns=[sel(cst, *ks)])
        cache[key] = (cst, ax, term)

    if not any(h.eq(ax) for h in st.pc[-60:]):
        st.assume(ax, tag="def:restrict")
    # every use is logged (cache hits too): the relational mode pairs the k-th restricted array of one run with the k-th of the other
    ex.ctx.__dict__.setdefault("restrict_log", []).append((cst, a.ndim))
    return cst


def add_valfn(ex, st, c, bound, res):
    args = []
    via = c.options.get("valfn_args") or {}
    for p in c.params:
        a = bound[p]
        if p in via:
            # the callee's result depends on this argument only through the given expression of the arguments (e.g. "w * y");
            # justified by a relational contract of the callee proved separately (named in the contract's note)
            sub = State()
            sub.heap = st.heap
            sub.pc = st.pc
            sub.env = dict(bound)
            a = ex.eval(ast.parse(via[p], mode="eval").body, sub)
        if isinstance(a, Arr):
            if ex.ctx.options.get("restrict_valfn"):
                args.append(restrict(ex, st, a))
                for s in a.shape:
                    args.append(zint(s))
                continue
            if a.view is not None:
                return
            args.append(st.heap[a.oid])
            for s in a.shape:
                args.append(zint(s))
        elif a is None or isinstance(a, (str,)):
            continue
        elif isinstance(a, (Tup, PList)):
            return
        else:
            args.append(ex.tofloat(a) if ex.isfloat(a) else (zbool(a) if isinstance(a, bool) or (z3.is_expr(a) and a.sort() == z3.BoolSort()) else zint(a)))
    outs = res.items if isinstance(res, Tup) else [res]
    for i, r in enumerate(outs):
        if isinstance(r, Arr):
            rt = st.heap[r.oid]
        elif z3.is_expr(r):
            rt = r
        else:
            continue
        key = (c.key, c.variant, i, tuple(a.sort().name() for a in args))
        if key not in ex.ctx.valfn:
            ex.ctx.valfn[key] = z3.Function(f"val!{c.qualname}!{i}!{len(ex.ctx.valfn)}", *[a.sort() for a in args], rt.sort())
        st.assume(rt == ex.ctx.valfn[key](*args))


def make_value(ex, st, ty, env, name):
    from .verify import parse_type
    if isinstance(ty, (tuple, list)):
        return Tup([make_value(ex, st, t, env, f"{name}{i}") for i, t in enumerate(ty)])
    t = parse_type(ty)
    if t["kind"] == "array":
        shape = []
        for d in t["dims"]:
            if isinstance(d, int):
                shape.append(d)
            elif d in env:
                shape.append(env[d])
            else:
                v = fresh(d, z3.IntSort())
                st.assume(v >= 0)
                env[d] = v
                shape.append(v)
        return ex.new_array(st, tuple(shape), t["dtype"], None, name)
    if t["kind"] == "scalar":
        return fresh(name, ex.ctx.elem_sort(t["dtype"]))
    if t["kind"] == "const":
        return t["value"]
    raise Unsupported(f"type {ty}")


# ----------------------------------------------------------------------------- array methods
def array_method(ex, st, a, name, node):
    args = [ex.eval(x, st) for x in node.args]
    kwargs = {k.arg: ex.eval(k.value, st) for k in node.keywords}
    ex.ctx.assumed.add(f"ndarray.{name}")
    if name == "copy":
        return ex.copy_array(st, a)
    if name in ("flatten", "ravel"):
        if a.ndim == 1:
            return ex.copy_array(st, a)
        raise Unsupported("flatten of n-d")
    if name == "astype":
        return ex.copy_array(st, a, dtype_of(ex, args[0]))
    if name == "sum":
        return np_sum(ex, st, node, a)
    if name == "any":
        k = fresh("k", z3.IntSort())
        return z3.Exists([k], z3.And(k >= 0, k < zint(a.shape[0]), zbool(ex.truthy(ex.read(st, a, (k,), node, check=False)))))
    if name == "all":
        k = fresh("k", z3.IntSort())
        return z3.ForAll([k], z3.Implies(z3.And(k >= 0, k < zint(a.shape[0])), zbool(ex.truthy(ex.read(st, a, (k,), node, check=False)))))
    if name == "searchsorted":
        return np_searchsorted(ex, st, node, a, *args, **kwargs)
    raise Unsupported(f"ndarray.{name} at {ex.where(node)}")


def flat1(ex, st, a):
    if a.ndim != 1:
        raise Unsupported("n-d reduction")
    if a.view is not None:
        a = ex.copy_array(st, a)
    return a


def np_sum(ex, st, node, a, *rest, **kw):
    from .spec import SPECFNS, specfn_decl
    a = flat1(ex, st, a)
    n = a.shape[0]
    if ex.ctx.options.get("restrict_valfn"):
        # relational mode: the sum is a deterministic function of the in-range cells
        rs = restrict(ex, st, a)
        ret = z3.IntSort() if a.dtype not in ("f8", "f4") else ex.fm.sort
        key = ("np.sum", a.dtype)
        f = ex.ctx.valfn.get(key)
        if f is None:
            f = z3.Function(f"np!sum!{a.dtype}", rs.sort(), z3.IntSort(), ret)
            ex.ctx.valfn[key] = f
        return f(rs, zint(n))
    if a.dtype == "b1":
        f = specfn_decl(ex, SPECFNS["cnt_true"])
        return f(st.heap[a.oid], z3.IntVal(0), zint(n))
    if a.dtype in ("f8", "f4"):
        f = specfn_decl(ex, SPECFNS["vsum"])
    else:
        f = specfn_decl(ex, SPECFNS["isum"])
    return f(st.heap[a.oid], z3.IntVal(0), zint(n))


def np_searchsorted(ex, st, node, a, v, side="left", *rest, **kw):
    """assumed contract: a sorted ascending; returns k in [0,n] with a[:k] < v <= a[k:] (left) / a[:k] <= v < a[k:] (right)."""
    a = flat1(ex, st, a)
    n = zint(a.shape[0])
    k = fresh("ss", z3.IntSort())
    j = fresh("j", z3.IntSort())
    rd = lambda i: ex.read(st, a, (i,), node, check=False)
    if side == "left":
        below, above = (lambda x: ex.compare(ast.Lt(), x, v, st)), (lambda x: ex.compare(ast.GtE(), x, v, st))
    else:
        below, above = (lambda x: ex.compare(ast.LtE(), x, v, st)), (lambda x: ex.compare(ast.Gt(), x, v, st))
    st.assume(z3.And(k >= 0, k <= n))
    st.assume(z3.ForAll([j], z3.Implies(z3.And(j >= 0, j < k), zbool(below(rd(j))))))
    st.assume(z3.ForAll([j], z3.Implies(z3.And(j >= k, j < n), zbool(above(rd(j))))))
    return k


# ----------------------------------------------------------------------------- library handlers
def L_range(ex, st, node, *a):
    if len(a) == 1:
        return RangeV(0, a[0], 1)
    if len(a) == 2:
        return RangeV(a[0], a[1], 1)
    if not isinstance(a[2], int):
        raise Unsupported("symbolic range step")
    return RangeV(a[0], a[1], a[2])


def L_prange(ex, st, node, *a):
    r = L_range(ex, st, node, *a)
    r.parallel = True
    return r


def L_len(ex, st, node, a):
    if isinstance(a, Arr):
        return a.shape[0]
    if isinstance(a, (Tup, PList)):
        return len(a.items)
    raise Unsupported("len")


def L_abs(ex, st, node, a):
    if isinstance(a, Arr):
        return ex.elementwise(st, a.shape, a.dtype, lambda k: L_abs(ex, st, node, ex.read(st, a, k, node, check=False)))
    if is_concrete(a):
        return abs(a)
    if ex.isfloat(a):
        return ex.fm.fabs(a)
    a = zint(a)
    return z3.If(a >= 0, a, -a)


def L_min(ex, st, node, *a):
    if len(a) == 1:
        raise Unsupported("min of iterable")
    r = a[0]
    for b in a[1:]:
        if is_concrete(r) and is_concrete(b):
            r = min(r, b)
        else:
            c = ex.compare(ast.Lt(), b, r, st)
            r = ex.ite(zbool(c), b, r)
    return r


def L_max(ex, st, node, *a):
    r = a[0]
    for b in a[1:]:
        if is_concrete(r) and is_concrete(b):
            r = max(r, b)
        else:
            c = ex.compare(ast.Gt(), b, r, st)
            r = ex.ite(zbool(c), b, r)
    return r


def L_int(ex, st, node, a):
    from . import pymodel
    if isinstance(a, pymodel.FmtStr):
        return a.to_int(ex)
    if is_concrete(a):
        return int(a)
    if ex.isfloat(a):
        return ex.f2i_trunc(a)
    return zint(a)


def L_float(ex, st, node, a):
    return ex.tofloat(a)


def L_round(ex, st, node, a, nd=None):
    # python round(): half to even, returns int when nd is None
    if is_concrete(a):
        return round(a)
    return ex.rint(ex.tofloat(a))


def L_pow(ex, st, node, a, b):
    return ex.binop(ast.Pow(), a, b, st, node)


def L_isinstance(ex, st, node, a, b):
    from . import pymodel
    return pymodel.py_isinstance(ex, a, b)


def L_hash(ex, st, node, a):
    from . import pymodel
    if isinstance(a, pymodel.Instance):
        return pymodel.call_method(ex, st, a, "__hash__", [])
    f = ex.ctx.valfn.setdefault(("hash",), z3.Function("py!hash", z3.IntSort(), z3.IntSort()))
    return f(zint(a))


def L_slice(ex, st, node, lo, hi=None, *r):
    from . import xmodel
    if hi is None:
        lo, hi = 0, lo
    return xmodel.SliceV(lo, hi)


def L_str(ex, st, node, a):
    from . import pymodel, xmodel
    if isinstance(a, xmodel.Label):
        return xmodel.StrOf(a)
    if isinstance(a, pymodel.Instance):
        return pymodel.call_method(ex, st, a, "__str__", [])
    if isinstance(a, pymodel.FmtStr):
        return a
    raise Unsupported("str() of a non-model value")


def L_datetime(kind):
    def h(ex, st, node, *a, **kw):
        from . import pymodel
        return pymodel.make_datetime(ex, st, node, *a, kind=kind)
    return h


def L_timedelta(ex, st, node, *a, **kw):
    from . import pymodel
    return pymodel.make_timedelta(ex, st, node, *a, **kw)


def L_zeros(ex, st, node, shape=None, dtype=None, **kw):
    if shape is None:
        shape = kw.get("shape")
    return ex.const_array(st, shape_of(ex, shape), dtype_of(ex, dtype if dtype is not None else kw.get("dtype")), 0, "zeros")


def L_ones(ex, st, node, shape=None, dtype=None, **kw):
    if shape is None:
        shape = kw.get("shape")
    return ex.const_array(st, shape_of(ex, shape), dtype_of(ex, dtype if dtype is not None else kw.get("dtype")), 1, "ones")


def L_full(ex, st, node, shape, value, dtype=None, **kw):
    return ex.const_array(st, shape_of(ex, shape), dtype_of(ex, dtype), value, "full")


def L_full_like(ex, st, node, a, value, dtype=None, **kw):
    return ex.const_array(st, a.shape, dtype_of(ex, dtype, a.dtype), value, "full_like")


def L_zeros_like(ex, st, node, a, dtype=None, **kw):
    return ex.const_array(st, a.shape, dtype_of(ex, dtype, a.dtype), 0, "zeros_like")


def L_np_sum(ex, st, node, a, *r, **kw):
    return np_sum(ex, st, node, a)


def L_np_abs(ex, st, node, a):
    return L_abs(ex, st, node, a)


def L_np_round(ex, st, node, a, decimals=0, out=None):
    if not isinstance(a, Arr):
        if decimals != 0:
            raise Unsupported("round decimals")
        return ex.tofloat(ex.rint(ex.tofloat(a))) if ex.fm.name != "U" else ex.fm.call("fround", ex.tofloat(a))
    if decimals != 0:
        raise Unsupported("round decimals")

    def val(k, target_dtype):
        v = ex.tofloat(ex.read(st, a, k, node, check=False))
        r = ex.rint(v)
        if target_dtype in ("f8", "f4"):
            return ex.fm.from_int(r) if ex.fm.name != "U" else ex.fm.call("fround", v)
        return r
    if out is None:
        return ex.elementwise(st, a.shape, "f8", lambda k: val(k, "f8"), "rounded")
    tmp = ex.elementwise(st, a.shape, out.root().dtype if out.view is not None else out.dtype,
                         lambda k: val(k, out.root().dtype if out.view is not None else out.dtype), "rounded")
    ex.assign_all(st, out, tmp, node)
    return out


def L_isnan(ex, st, node, a):
    if isinstance(a, Arr):
        return ex.elementwise(st, a.shape, "b1", lambda k: L_isnan(ex, st, node, ex.read(st, a, k, node, check=False)), "mask")
    if isinstance(a, NaNV):
        return True
    if not ex.isfloat(a):
        return False
    return ex.fm.isnan(ex.tofloat(a))


def L_isinf(ex, st, node, a):
    if not ex.isfloat(a):
        return False
    return ex.fm.isinf(ex.tofloat(a))


def L_np_array(ex, st, node, a, dtype=None, **kw):
    dt = dtype_of(ex, dtype if dtype is not None else kw.get("dtype"), None)
    if isinstance(a, CompRef):
        comp = a.node
        if len(comp.generators) != 1 or comp.generators[0].ifs:
            raise Unsupported("comprehension shape")
        gen = comp.generators[0]
        sub = st.copy()
        sub.env = dict(a.env)
        src = ex.eval(gen.iter, sub)
        if not (isinstance(src, Arr) and src.ndim == 1 and isinstance(gen.target, ast.Name)):
            raise Unsupported("comprehension source")

        def fn(k):
            s2 = st.copy()
            s2.env = dict(a.env)
            s2.env[gen.target.id] = ex.read(st, src, k, node, check=False)
            return ex.eval(comp.elt, s2)
        probe = fn((z3.Int("k!probe"),))
        if dt is None:
            dt = "f8" if ex.isfloat(probe) else ("b1" if isinstance(probe, bool) or (z3.is_expr(probe) and probe.sort() == z3.BoolSort()) else "i8")
        return ex.elementwise(st, src.shape, dt, fn, "comp")
    if isinstance(a, PList):
        items = a.items
        if all(isinstance(x, PList) for x in items):
            return ListTable(items)
        if dt is None:
            dt = "f8" if any(ex.isfloat(x) for x in items) else "i8"
        arr = ex.const_array(st, (len(items),), dt, 0, "lit")
        for i, x in enumerate(items):
            ex.store(st, arr, (i,), x, node)
        return arr
    if isinstance(a, Arr):
        return ex.copy_array(st, a, dt)
    raise Unsupported("np.array argument")


class ListTable(Obj):
    """np.array(list of [score, s] pairs): only table[i, j] reads are supported."""

    def __init__(self, rows):
        self.rows = rows

    def getitem(self, ex, sl, st, node):
        if isinstance(sl, ast.Tuple) and len(sl.elts) == 2:
            i, j = ex.eval(sl.elts[0], st), ex.eval(sl.elts[1], st)
            if isinstance(i, int) and isinstance(j, int):
                if not (-len(self.rows) <= i < len(self.rows)):
                    ex.emit(st, "index", ex.node_name(node, "idx"), False, ex.where(node))
                    return fresh("undef", ex.fm.sort)
                return ex.tofloat(self.rows[i].items[j])
        raise Unsupported("ListTable index")


def L_np_where(ex, st, node, cond, *rest):
    """np.where(mask)[0]: strictly increasing enumeration of the true positions (assumed contract)."""
    if rest:
        a, b = rest
        shape = cond.shape

        def fn(k):
            c = zbool(ex.read(st, cond, k, node, check=False))
            x = ex.read(st, a, k, node, check=False) if isinstance(a, Arr) else a
            y = ex.read(st, b, k, node, check=False) if isinstance(b, Arr) else b
            return ex.ite(c, x, y)
        probe = fn(tuple(z3.Int(f"k!p{i}") for i in range(len(shape))))
        dt = "f8" if ex.isfloat(probe) else "i8"
        return ex.elementwise(st, shape, dt, fn, "where")
    cond = flat1(ex, st, cond)
    n = zint(cond.shape[0])
    wcache = ex.ctx.__dict__.setdefault("where_cache", {})
    wkey = st.heap[cond.oid].get_id()
    if wkey in wcache:
        pos, facts, keep = wcache[wkey]
        st.heap.setdefault(pos.oid, keep)
        for f in facts:
            if not any(h.eq(f) for h in st.pc):
                st.assume(f, tag="lib:where")
        return Tup([pos])
    npc0 = len(st.pc)
    cnt = fresh("nwhere", z3.IntSort())
    pos = ex.new_array(st, (cnt,), "i8", None, "where")
    P = st.heap[pos.oid]
    M = st.heap[cond.oid]
    i, j = fresh("i", z3.IntSort()), fresh("j", z3.IntSort())
    st.assume(z3.And(cnt >= 0, cnt <= n))
    st.assume(qforall([i], z3.Implies(z3.And(i >= 0, i < cnt), z3.And(P[i] >= 0, P[i] < n, sel(M, P[i]))), [P[i]]))
    st.assume(qforall([i, j], z3.Implies(z3.And(i >= 0, i < j, j < cnt), P[i] < P[j]), [z3.MultiPattern(P[i], P[j])]))
    # completeness: every true position is enumerated
    rank = z3.Function(f"rank!{pos.oid}", z3.IntSort(), z3.IntSort())
    st.assume(qforall([j], z3.Implies(z3.And(j >= 0, j < n, sel(M, j)), z3.And(rank(j) >= 0, rank(j) < cnt, P[rank(j)] == j)), [rank(j)]))
    mj = sel(M, j)
    trig = _select_terms(mj, j)
    if trig:
        st.assume(qforall([j], z3.Implies(z3.And(j >= 0, j < n, mj), z3.And(rank(j) >= 0, rank(j) < cnt, P[rank(j)] == j)), [trig[0]]))
    else:
        st.assume(qforall([j], z3.Implies(z3.And(j >= 0, j < n, mj), z3.And(rank(j) >= 0, rank(j) < cnt, P[rank(j)] == j))))
    if ex.ctx.options.get("restrict_valfn"):
        # relational mode: the enumeration of the true positions is a deterministic function of the in-range cells of the mask
        rsm = restrict(ex, st, cond)
        fc = ex.ctx.valfn.setdefault(("where.count",), z3.Function("np!where!count", rsm.sort(), z3.IntSort(), z3.IntSort()))
        fp = ex.ctx.valfn.setdefault(("where.pos",), z3.Function("np!where!pos", rsm.sort(), z3.IntSort(), z3.IntSort(), z3.IntSort()))
        st.assume(cnt == fc(rsm, n), tag="lib:where")
        kk = fresh("k", z3.IntSort())
        st.assume(qforall([kk], P[kk] == fp(rsm, n, kk), [P[kk]]), tag="lib:where")
    ex.ctx.where_rank = getattr(ex.ctx, "where_rank", {})
    ex.ctx.where_rank[pos.oid] = rank
    wcache[wkey] = (pos, list(st.pc[npc0:]), st.heap[pos.oid])
    ex.ctx.keep = getattr(ex.ctx, "keep", []) + [st.heap[cond.oid]]
    return Tup([pos])


def L_arange(ex, st, node, *a, dtype=None, **kw):
    if len(a) == 1:
        lo, hi, stp = 0, a[0], 1
    elif len(a) == 2:
        lo, hi, stp = a[0], a[1], 1
    else:
        lo, hi, stp = a
    if all(is_concrete(x) for x in (lo, hi, stp)):
        # literal grid: length as numpy computes it, ceil((hi-lo)/step)
        from fractions import Fraction
        import math
        f = lambda x: Fraction(repr(x)) if isinstance(x, float) else Fraction(x)
        n = max(0, math.ceil((f(hi) - f(lo)) / f(stp)))
        isf = any(isinstance(x, float) for x in (lo, hi, stp)) or dtype_of(ex, dtype, "i8") in ("f8", "f4")
        if isf:
            return ex.elementwise(st, (n,), "f8", lambda k: ex.fm.add(ex.tofloat(lo), ex.fm.mul(ex.fm.from_int(k[0]), ex.tofloat(stp)))
                                  if ex.fm.name != "U" else ex.fm.ufn("arange_elt", 3)(ex.tofloat(lo), ex.tofloat(stp), ex.fm.from_int(k[0])), "arange")
        return ex.elementwise(st, (n,), "i8", lambda k: lo + k[0] * stp, "arange")
    if len(a) == 1 and is_int(hi):
        return ex.elementwise(st, (hi,), dtype_of(ex, dtype, "i8"), lambda k: k[0], "arange")
    raise Unsupported("symbolic arange")


def ufun1(name):
    def h(ex, st, node, a):
        if isinstance(a, Arr):
            return ex.elementwise(st, a.shape, "f8", lambda k: ex.fm.call(name, ex.tofloat(ex.read(st, a, k, node, check=False))), name)
        return ex.fm.call(name, ex.tofloat(a))
    return h


def ufun2(name):
    def h(ex, st, node, a, b):
        return ex.fm.call(name, ex.tofloat(a), ex.tofloat(b))
    return h


def L_cast(code):
    def h(ex, st, node, a):
        return cast_scalar(ex, st, code, a)
    return h


def L_sqrt(ex, st, node, a):
    if isinstance(a, Arr):
        return ex.elementwise(st, a.shape, "f8", lambda k: L_sqrt(ex, st, node, ex.read(st, a, k, node, check=False)), "sqrt")
    return ex.fm.call("sqrt", ex.tofloat(a))


def L_median(name):
    def h(ex, st, node, a, *r, **kw):
        a = flat1(ex, st, a)
        ex.ctx.assumed.add(f"numpy.{name}: uninterpreted function of the array (order statistic)")
        key = ("median", name)
        f = ex.ctx.valfn.get(key)
        if f is None:
            f = z3.Function(f"np!{name}", ex.ctx.arr_sort("f8", 1), z3.IntSort(), ex.fm.sort)
            ex.ctx.valfn[key] = f
        src = a if a.dtype in ("f8", "f4") else ex.copy_array(st, a, "f8")
        if ex.ctx.options.get("restrict_valfn"):
            # relational mode: an order statistic is a deterministic function of the in-range cells
            return f(restrict(ex, st, src), zint(a.shape[0]))
        return f(st.heap[src.oid], zint(a.shape[0]))
    return h


def L_unique(ex, st, node, a, *r, **kw):
    """np.unique: strictly increasing array with the same set of values (assumed); only its length bound is modelled"""
    a = flat1(ex, st, a)
    n = zint(a.shape[0])
    cnt = fresh("nunique", z3.IntSort())
    st.assume(z3.And(cnt >= 0, cnt <= n, z3.Implies(n >= 1, cnt >= 1)), tag="lib:unique")
    res = ex.new_array(st, (cnt,), a.dtype, None, "unique")
    from . import spec as _spec
    if ex.c.options.get("unique_counts") and "cnteq" in _spec.SPECFNS and a.dtype in ("f8", "f4"):
        # counting fact of the library contract (pigeonhole): as many distinct values as cells => every value occurs exactly once
        ex.ctx.assumed.add("numpy.unique: when it returns as many values as the input has cells, each returned value occurs exactly once in the input (pigeonhole; assumed)")
        f = _spec.specfn_decl(ex, _spec.SPECFNS["cnteq"])
        i = z3.Int("k!uq")
        src = _spec.materialise(ex, st, st.heap[a.oid])
        st.assume(z3.Implies(cnt == n, z3.ForAll([i], z3.Implies(z3.And(i >= 0, i < cnt), f(src, sel(st.heap[res.oid], i), n) == 1))), tag="lib:unique")
    return res


def L_minmax(which):
    def h(ex, st, node, a, b):
        f = L_min if which == "min" else L_max
        if isinstance(a, Arr) or isinstance(b, Arr):
            arr = a if isinstance(a, Arr) else b
            if isinstance(a, Arr) and isinstance(b, Arr):
                ex.same_shape(st, a, b, node)
            return ex.elementwise(st, arr.shape, "f8", lambda k: f(ex, st, node,
                                  ex.read(st, a, k, node, check=False) if isinstance(a, Arr) else a,
                                  ex.read(st, b, k, node, check=False) if isinstance(b, Arr) else b), which)
        return f(ex, st, node, a, b)
    return h


def L_identity(ex, st, node, a, *r, **kw):
    return a


LIB = {
    "builtins.slice": L_slice, "builtins.isinstance": L_isinstance, "builtins.hash": L_hash, "builtins.str": L_str,
    "datetime.datetime": L_datetime("datetime"), "datetime.date": L_datetime("date"), "datetime.timedelta": L_timedelta,
    "numpy.datetime64": L_identity, "numpy.minimum": L_minmax("min"), "numpy.maximum": L_minmax("max"),
    "builtins.range": L_range, "numba.prange": L_prange, "builtins.len": L_len, "builtins.abs": L_abs, "builtins.min": L_min,
    "builtins.max": L_max, "builtins.int": L_int, "builtins.float": L_float, "builtins.round": L_round, "builtins.pow": L_pow,
    "numpy.zeros": L_zeros, "numpy.ones": L_ones, "numpy.full": L_full, "numpy.full_like": L_full_like,
    "numpy.zeros_like": L_zeros_like, "numpy.sum": L_np_sum, "numpy.abs": L_np_abs, "numpy.round": L_np_round,
    "numpy.isnan": L_isnan, "numpy.isinf": L_isinf, "numpy.array": L_np_array, "numpy.where": L_np_where,
    "numpy.arange": L_arange, "numpy.max": L_median("max"), "numpy.min": L_median("min"), "numpy.amax": L_median("max"), "numpy.amin": L_median("min"),
    "numpy.median": L_median("median"), "numpy.nanmedian": L_median("nanmedian"), "numpy.unique": L_unique,
    "numpy.log10": ufun1("log10"), "numpy.sqrt": L_sqrt, "math.sqrt": L_sqrt, "math.log": ufun1("log"), "math.erf": ufun1("erf"),
    "numpy.cos": ufun1("cos"), "scipy.special.digamma": ufun1("digamma"), "scipy.special.ndtri": ufun1("ndtri"),
    "scipy.special.gammainc": ufun2("gammainc"),
    "numba.core.types.float64": L_cast("f8"), "numba.core.types.float32": L_cast("f4"), "numba.core.types.int64": L_cast("i8"),
    "numba.core.types.int16": L_cast("i2"), "numba.core.types.int32": L_cast("i4"),
}


# ----------------------------------------------------------------------------- boolean masks
def mask_read(ex, st, a, mask, node):
    """a[mask] (compress): assumed contract -- strictly increasing ghost position map."""
    if mask.dtype != "b1":
        raise Unsupported("fancy integer indexing")
    ex.ctx.assumed.add("ndarray.__getitem__(bool mask) = compress")
    a1 = flat1(ex, st, a)
    ex.same_shape(st, a1, mask, node)
    pos = L_np_where(ex, st, node, mask).items[0]
    res = ex.elementwise(st, pos.shape, a.dtype, lambda k: ex.read(st, a1, (sel(st.heap[pos.oid], k[0]),), node, check=False), "compress")
    res.positions = pos
    res.source = a
    return res


def mask_write(ex, st, a, mask, v, node):
    """a[mask] = v (scalar) or = arr (scatter in order of the true positions)."""
    if mask.dtype != "b1":
        raise Unsupported("fancy integer store")
    ex.ctx.assumed.add("ndarray.__setitem__(bool mask) = scatter")
    if a.view is not None or a.ndim != 1:
        raise Unsupported("mask store into view")
    ex.same_shape(st, a, mask, node)
    M = st.heap[flat1(ex, st, mask).oid]
    old = st.heap[a.oid]
    k = z3.Int(f"k!mw{a.oid}")
    inr = z3.And(k >= 0, k < zint(a.shape[0]))
    if isinstance(v, Arr):
        # v must be the compress of the same mask (lengths equal): position map rank
        pos = L_np_where(ex, st, node, mask).items[0]
        rank = ex.ctx.where_rank[pos.oid]
        if not ex.spec_mode:
            ex.emit(st, "shape", ex.node_name(node, "scatter_len"), zint(v.shape[0]) == zint(pos.shape[0]), ex.where(node))
        val = ex.coerce_elem(st, a.dtype, ex.read(st, v, (rank(k),), node, check=False), v)
        ex.cast_all(st, a.dtype, v, node)
    else:
        val = ex.coerce_elem(st, a.dtype, v, None)
        ex.cast_all(st, a.dtype, v, node)
    st.heap[a.oid] = z3.Lambda([k], z3.If(z3.And(inr, sel(M, k)), val, sel(old, k)))
    if a.oid in st.written:
        w = st.written[a.oid]
        st.written[a.oid] = z3.Lambda([k], z3.Or(z3.And(inr, sel(M, k)), sel(w, k)))

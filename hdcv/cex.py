"""Counterexample search for a failed obligation (DESIGN.md §2.9 step 2).

The function is executed symbolically again *without invariants*, for small concrete array sizes (all
loops unroll, the VCs are quantifier-free and exact), and z3 is asked for an input that violates the
same obligation (same kind, same source position).  A model found this way is a real input of the
function; it is replayed on the compiled kernel by standin/model_replay.py.
"""
import copy
import itertools
import json
import re
import time

import z3

from . import smt, spec, verify
from .verify import parse_type


def _dims_of(c):
    names = []
    for ty in c.params.values():
        t = parse_type(ty)
        if t["kind"] == "array":
            for d in t["dims"]:
                if not isinstance(d, int) and d not in names:
                    names.append(d)
    return names


def concretise(c, sizes):
    """a scratch contract with every symbolic dimension replaced by an integer; no invariants, no hints"""
    params = {}
    for p, ty in c.params.items():
        t = parse_type(ty)
        if t["kind"] == "array":
            base = ty.split("[")[0]
            dims = [str(d if isinstance(d, int) else sizes[d]) for d in t["dims"]]
            params[p] = f"{base}[{', '.join(dims)}]"
        else:
            params[p] = ty
    requires = {}
    for nm, e in c.requires.items():
        e2 = e
        for d, v in sizes.items():
            e2 = re.sub(rf"\b{d}\b", str(v), e2)
        requires[nm] = e2
    opts = dict(c.options)
    opts.update({"auto_cut": False, "max_unroll": 64, "max_paths": 3000, "frame_obligations": False, "valfn": False})
    opts.pop("nloops", None)
    opts.pop("by_id", None)
    cc = spec.Contract(c.key, variant=f"cex!{c.variant}!{'_'.join(str(v) for v in sizes.values())}", params=params, requires=requires,
                       result=None, modifies=list(c.modifies), track_written=list(c.track_written), options=opts, fmodel=c.fmodel,
                       call_variant=dict(c.call_variant, **{"__self__": c.variant}))
    cc.short = c.short
    return cc


def _has_quantifier(t, seen=None):
    seen = set() if seen is None else seen
    if t.get_id() in seen:
        return False
    seen.add(t.get_id())
    if z3.is_quantifier(t):
        return not t.is_lambda() or _has_quantifier(t.body(), seen)
    return any(_has_quantifier(c, seen) for c in t.children()) if z3.is_app(t) else False


def base_id(oid):
    return re.sub(r"#\d+$", "", oid)


def search(o, c, budget_s=60, size_values=(2, 3, 4, 5)):
    """-> (model_input dict, sizes) or (None, reason)"""
    dims = _dims_of(c)
    want = base_id(o.id)
    t0 = time.time()
    tried = 0
    combos = [dict(zip(dims, vs)) for vs in itertools.product(size_values, repeat=len(dims))] if dims else [{}]
    combos.sort(key=lambda s: sum(s.values()))
    for sizes in combos[:12]:
        if time.time() - t0 > budget_s:
            break
        cc = concretise(c, sizes)
        try:
            r = verify.verify_function(cc, {"specfn_encoding": "naive", "gen_budget_s": max(5, int(budget_s - (time.time() - t0)))})
        finally:
            spec.REGISTRY.pop((cc.key, cc.variant), None)
        if r.error or r.ctx is None:
            continue
        cands = [x for x in r.ctx.obls if x.kind == o.kind and base_id(x.id) == want]
        for x in cands[:60]:
            tried += 1
            # the search may use the non-linear abstraction (uninterpreted * and /): a model is only a candidate
            # input, it is validated by replaying it on the real code
            cache = {}
            s = z3.Solver()
            s.set("timeout", 5000)
            for h in x.hyps:
                if not _has_quantifier(h):        # quantified facts (callee postconditions, ranges) are dropped: candidates are validated by replay
                    s.add(smt.nl_abstract(h, cache))
            s.add(z3.Not(smt.nl_abstract(x.goal, cache)))
            if s.check() == z3.sat:
                mi = smt._model_input(s.model(), getattr(r.ctx, "inputs", None))
                if mi is not None:
                    return mi, sizes
            if time.time() - t0 > budget_s:
                break
    return None, f"no violating input among concrete sizes {size_values} ({tried} bounded VCs tried)"

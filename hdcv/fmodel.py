"""Arithmetic models for Python/Numba `float` (DESIGN.md §2.3).

R: floats are exact reals.  Special functions are uninterpreted (a few axioms).
U: floats are an uninterpreted sort, every operation an uninterpreted function (bit-for-bit
   equality of two computations that perform the same operations on the same operands).
M: reals, every arithmetic operation followed by an uninterpreted monotone rounding `rnd`.
"""
from fractions import Fraction

import z3


def _rv(v):
    if isinstance(v, bool):
        v = int(v)
    if isinstance(v, int):
        return z3.RealVal(v)
    if isinstance(v, Fraction):
        return z3.RealVal(f"{v.numerator}/{v.denominator}")
    if isinstance(v, float):
        if v != v or v in (float("inf"), float("-inf")):
            raise ValueError("non-finite constant in model R")
        # decimal literal semantics: the shortest repr is what the programmer wrote
        return z3.RealVal(str(Fraction(repr(v))))
    raise TypeError(v)


class ModelR:
    name = "R"

    def __init__(self):
        self.sort = z3.RealSort()
        self._fn = {}
        self.axioms = []

    def is_float(self, t):
        return z3.is_expr(t) and t.sort() == self.sort

    def const(self, v):
        return _rv(v)

    def from_int(self, t):
        if isinstance(t, (int, bool)):
            return _rv(int(t))
        return z3.ToReal(t)

    def add(self, a, b): return a + b
    def sub(self, a, b): return a - b
    def mul(self, a, b): return a * b
    def div(self, a, b): return a / b
    def neg(self, a): return -a
    def lt(self, a, b): return a < b
    def le(self, a, b): return a <= b
    def gt(self, a, b): return a > b
    def ge(self, a, b): return a >= b
    def eq(self, a, b): return a == b
    def ne(self, a, b): return a != b
    def fabs(self, a): return z3.If(a >= 0, a, -a)

    def ufn(self, name, arity=1, ret=None):
        key = (name, arity)
        if key not in self._fn:
            self._fn[key] = z3.Function(f"{name}", *([self.sort] * arity), ret if ret is not None else self.sort)
        return self._fn[key]

    def call(self, name, *args):
        return self.ufn(name, len(args))(*args)

    def isnan(self, a):
        # model R has no NaN arithmetic; "is missing" is an uninterpreted predicate on the cell value
        return z3.Function("isnan", self.sort, z3.BoolSort())(a)

    def isinf(self, a):
        return z3.Function("isinf", self.sort, z3.BoolSort())(a)
    nan_possible = False


class ModelM(ModelR):
    """Reals + uninterpreted monotone rounding after each operation."""
    name = "M"

    def __init__(self):
        super().__init__()
        self.rnd = z3.Function("rnd", self.sort, self.sort)
        a, b = z3.Reals("rnd!a rnd!b")
        self.axioms += [
            z3.ForAll([a, b], z3.Implies(a <= b, self.rnd(a) <= self.rnd(b)), patterns=[z3.MultiPattern(self.rnd(a), self.rnd(b))]),
            self.rnd(z3.RealVal(0)) == 0,
        ]

    def add(self, a, b): return self.rnd(a + b)
    def sub(self, a, b): return self.rnd(a - b)
    def mul(self, a, b): return self.rnd(a * b)
    def div(self, a, b): return self.rnd(a / b)


class ModelU:
    """Uninterpreted floats.  Equality is IEEE == on non-NaN values."""
    name = "U"
    nan_possible = True

    def __init__(self):
        self.sort = z3.DeclareSort("F")
        self._fn = {}
        self._consts = {}
        S = self.sort
        self.fadd = z3.Function("fadd", S, S, S)
        self.fsub = z3.Function("fsub", S, S, S)
        self.fmul = z3.Function("fmul", S, S, S)
        self.fdiv = z3.Function("fdiv", S, S, S)
        self.fneg = z3.Function("fneg", S, S)
        self.flt = z3.Function("flt", S, S, z3.BoolSort())
        self.fle = z3.Function("fle", S, S, z3.BoolSort())
        self.fabs_ = z3.Function("fabs", S, S)
        self.finite = z3.Function("finite", S, z3.BoolSort())
        self.fnan = z3.Function("isnan", S, z3.BoolSort())
        self.finf = z3.Function("isinf", S, z3.BoolSort())
        self.i2f = z3.Function("i2f", z3.IntSort(), S)
        self.zero = self.const(0)
        self.one = self.const(1)
        x = z3.Const("U!x", S)
        y = z3.Const("U!y", S)
        self.axioms = [
            # IEEE absorption / identity: only for finite operands
            z3.ForAll([x], z3.Implies(self.finite(x), self.fmul(self.zero, x) == self.zero), patterns=[self.fmul(self.zero, x)]),
            z3.ForAll([x], self.fmul(self.one, x) == x, patterns=[self.fmul(self.one, x)]),
            z3.ForAll([x], self.fmul(x, self.one) == x, patterns=[self.fmul(x, self.one)]),
            z3.ForAll([x], self.finite(x) == z3.And(z3.Not(self.fnan(x)), z3.Not(self.finf(x))), patterns=[self.finite(x)]),
            self.finite(self.zero), self.finite(self.one), self.zero != self.one,
            z3.ForAll([x], self.fsub(self.one, self.zero) == self.one),
            self.fsub(self.one, self.one) == self.zero,
            self.fsub(self.one, self.zero) == self.one,
            # fabs / sums of non-negative values (used by the IRLS convergence tests)
            z3.ForAll([x], z3.Implies(z3.Not(self.fnan(x)), self.fle(self.zero, self.fabs_(x))), patterns=[self.fabs_(x)]),
        ]

    def extra_axiom(self, name):
        """optional IEEE facts a contract may ask for by name (each one is listed among the contract's assumptions)"""
        S = self.sort
        a, a2, b = z3.Const("U!a", S), z3.Const("U!a2", S), z3.Const("U!b", S)
        if name == "sub_finite":
            # assumption, not an IEEE law: the difference of two finite values does not overflow
            return z3.ForAll([a, b], z3.Implies(z3.And(self.finite(a), self.finite(b)), self.finite(self.fsub(a, b))), patterns=[self.fsub(a, b)])
        if name == "sub_nonfinite":
            # IEEE: finite - (+-inf) = -+inf and x - NaN = NaN whatever the finite minuend (NaN payloads identified)
            return z3.ForAll([a, a2, b], z3.Implies(z3.And(self.finite(a), self.finite(a2), z3.Not(self.finite(b))), self.fsub(a, b) == self.fsub(a2, b)),
                             patterns=[z3.MultiPattern(self.fsub(a, b), self.fsub(a2, b))])
        if name == "mul_zero_nonfinite":
            # IEEE: 0 * (+-inf) = NaN = 0 * NaN: one value whatever the non-finite factor
            return z3.ForAll([a, b], z3.Implies(z3.And(z3.Not(self.finite(a)), z3.Not(self.finite(b))), self.fmul(self.zero, a) == self.fmul(self.zero, b)),
                             patterns=[z3.MultiPattern(self.fmul(self.zero, a), self.fmul(self.zero, b))])
        if name == "i2f_finite":
            # integer values (int16 data, counters) convert to finite floats
            n = z3.Int("U!n")
            return z3.ForAll([n], self.finite(self.i2f(n)), patterns=[self.i2f(n)])
        raise KeyError(name)

    def is_float(self, t):
        return z3.is_expr(t) and t.sort() == self.sort

    def const(self, v):
        if isinstance(v, bool):
            v = int(v)
        key = Fraction(repr(v)) if isinstance(v, float) and v == v and abs(v) != float("inf") else v
        if isinstance(v, int):
            key = Fraction(v)
        if key not in self._consts:
            self._consts[key] = z3.Const(f"fc!{str(key).replace('/', '_').replace('-', 'm')}", self.sort)
        return self._consts[key]

    def distinct_consts_axiom(self):
        cs = list(self._consts.values())
        return z3.Distinct(*cs) if len(cs) > 1 else z3.BoolVal(True)

    def from_int(self, t):
        if isinstance(t, (int, bool)):
            return self.const(int(t))
        return self.i2f(t)

    def add(self, a, b): return self.fadd(a, b)
    def sub(self, a, b): return self.fsub(a, b)
    def mul(self, a, b): return self.fmul(a, b)
    def div(self, a, b): return self.fdiv(a, b)
    def neg(self, a): return self.fneg(a)
    def lt(self, a, b): return self.flt(a, b)
    def le(self, a, b): return self.fle(a, b)
    def gt(self, a, b): return self.flt(b, a)
    def ge(self, a, b): return self.fle(b, a)
    def eq(self, a, b): return z3.And(a == b, z3.Not(self.fnan(a)))
    def ne(self, a, b): return z3.Not(self.eq(a, b))
    def fabs(self, a): return self.fabs_(a)
    def isnan(self, a): return self.fnan(a)
    def isinf(self, a): return self.finf(a)

    def ufn(self, name, arity=1, ret=None):
        key = (name, arity)
        if key not in self._fn:
            self._fn[key] = z3.Function(f"{name}", *([self.sort] * arity), ret if ret is not None else self.sort)
        return self._fn[key]

    def call(self, name, *args):
        return self.ufn(name, len(args))(*args)


def make(name):
    return {"R": ModelR, "U": ModelU, "M": ModelM}[name]()

"""hdcv — contract-based deductive verifier for the Numba/Python subset used by hdc-algo.

Runs under python3-vt (z3-solver, sympy).  See /verif/DESIGN.md.
"""
import os

REPO = os.environ.get("HDCV_REPO", "/repo")
VERIF = os.path.dirname(os.path.dirname(os.path.abspath(__file__)))
VENV_PY = os.environ.get("HDCV_VENV_PY", "/venv/bin/python")

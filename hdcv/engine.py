"""Symbolic executor / VC generator over the real AST of /repo functions (DESIGN.md §2).

Forward symbolic execution with path forking; loops are cut at the invariants given in the sidecar
contract (or unrolled completely when the trip count is a literal); every subscript, division,
narrowing store, call-site precondition, invariant initiation/preservation and postcondition
becomes a named obligation.  Calls to repo functions use the callee's contract only.
"""
import ast
import os
import time
import itertools
from fractions import Fraction

import z3

from . import fmodel
from .frontend import BindingFailure

INT_RANGE = {
    "i1": (-128, 127), "u1": (0, 255), "i2": (-32768, 32767), "u2": (0, 65535),
    "i4": (-2 ** 31, 2 ** 31 - 1), "u4": (0, 2 ** 32 - 1), "i8": (-2 ** 63, 2 ** 63 - 1), "u8": (0, 2 ** 64 - 1),
}
DTYPE_ALIASES = {
    "float64": "f8", "float32": "f4", "int8": "i1", "uint8": "u1", "int16": "i2", "uint16": "u2", "int32": "i4",
    "int64": "i8", "uint32": "u4", "uint64": "u8", "bool": "b1", "boolean": "b1", "real": "f8", "int": "i8", "float": "f8",
    "f8": "f8", "f4": "f4", "i1": "i1", "u1": "u1", "i2": "i2", "i4": "i4", "i8": "i8", "b1": "b1", "bool_": "b1", "double": "f8",
}


class Unsupported(Exception):
    """Construct outside the encoded subset (reported, never guessed)."""


class Obl:
    """A named proof obligation: hyps |- goal."""

    def __init__(self, oid, kind, hyps, goal, where="", model="", by=None, expect="unsat"):
        self.id = oid
        self.kind = kind
        self.hyps = list(hyps)
        self.goal = goal
        self.where = where
        self.fmodel = model
        self.by = by or {}
        self.expect = expect  # "unsat": goal must be proved;  "sat": cover (hyps satisfiable)
        self.verdict = None
        self.time = 0.0
        self.backend = None
        self.detail = ""
        self.axioms = []


_counter = itertools.count()


def fresh(prefix, sort):
    return z3.Const(f"{prefix}!{next(_counter)}", sort)


class Arr:
    """Array object reference.  Contents live in State.heap[oid] (a z3 array over Int^ndim)."""

    def __init__(self, oid, shape, dtype, view=None, name=""):
        self.oid = oid
        self.shape = tuple(shape)
        self.dtype = dtype
        self.view = view  # (base Arr, fn: idx tuple -> base idx tuple)
        self.name = name

    @property
    def ndim(self):
        return len(self.shape)

    def root(self):
        a = self
        while a.view is not None:
            a = a.view[0]
        return a

    def map_index(self, idx):
        a = self
        while a.view is not None:
            idx = a.view[1](idx)
            a = a.view[0]
        return a, idx


class Tup:
    def __init__(self, items):
        self.items = list(items)


class PList:
    def __init__(self, items):
        self.items = list(items)


class Lam:
    def __init__(self, node, env):
        self.node = node
        self.env = env


class ModRef:
    def __init__(self, name):
        self.name = name


class FnRef:
    def __init__(self, name):
        self.name = name  # dotted library name or repo key


class DtypeRef:
    def __init__(self, code):
        self.code = code


class State:
    def __init__(self):
        self.env = {}
        self.heap = {}
        self.pc = []
        self.old = {}       # name -> value at function entry (arrays: (Arr, term))
        self.pre = {}       # loop-entry snapshots
        self.yields = []
        self.written = {}   # oid -> z3 Bool array (ghost written bitmap) when tracked
        self.extra = {}

    def copy(self):
        s = State()
        s.env = dict(self.env)
        s.heap = dict(self.heap)
        s.pc = list(self.pc)
        s.old = self.old
        s.pre = dict(self.pre)
        s.yields = list(self.yields)
        s.written = dict(self.written)
        s.extra = dict(self.extra)
        return s

    def assume(self, f, tag=None):
        if f is True or (z3.is_expr(f) and z3.is_true(f)):
            return
        if f is False:
            f = z3.BoolVal(False)
        self.pc.append(f)
        if tag is not None:
            TAGS.setdefault(f.get_id(), set()).add(tag)


TAGS = {}   # z3 formula id -> tag of the hypothesis ("let", "have", "inst", "use", "inv:<name>", ...)


NORMAL, RETURN, BREAK, CONTINUE, RAISE = "normal", "return", "break", "continue", "raise"


class Outcome:
    def __init__(self, kind, value=None):
        self.kind = kind
        self.value = value


class Ctx:
    """Verification context of one function under one contract."""

    def __init__(self, contract, registry, fm_name="R"):
        self.contract = contract
        self.registry = registry
        self.fm = fmodel.make(fm_name)
        self.obls = []
        self.axioms = list(self.fm.axioms)
        self.spec_cache = {}
        self.oid_counter = itertools.count(1)
        self.assumed = set()      # library contracts used
        self.notes = []
        self.loop_ord = {}
        self.options = dict(contract.options)
        self.unrolled = []
        self.valfn = {}

    def new_oid(self):
        return next(self.oid_counter)

    def elem_sort(self, dtype):
        if dtype in ("f8", "f4"):
            return self.fm.sort
        if dtype == "b1":
            return z3.BoolSort()
        return z3.IntSort()

    def arr_sort(self, dtype, ndim):
        return z3.ArraySort(*([z3.IntSort()] * ndim), self.elem_sort(dtype))

    def add_axiom(self, ax):
        self.axioms.append(ax)


def _idx_cmp(a, b):
    """'eq' / 'ne' / None for two integer index terms, decided syntactically (linear difference)."""
    if a.eq(b):
        return "eq"
    d = z3.simplify(a - b)
    if z3.is_int_value(d):
        return "eq" if d.as_long() == 0 else "ne"
    return None


def sel(term, *idx):
    """select with eager beta-reduction of lambda arrays and select-over-store resolution when the
    index comparison is decided syntactically (keeps terms canonical for ratfun and small for z3)."""
    idx = [zint(i) for i in idx]
    while True:
        if z3.is_quantifier(term) and term.is_lambda() and term.num_vars() == len(idx):
            return z3.substitute_vars(term.body(), *reversed(idx))
        if z3.is_app(term) and term.decl().kind() == z3.Z3_OP_CONST_ARRAY and len(idx) == 1:
            return term.arg(0)
        if z3.is_app(term) and term.decl().kind() == z3.Z3_OP_STORE and term.num_args() == len(idx) + 2:
            cmps = [_idx_cmp(term.arg(1 + k), idx[k]) for k in range(len(idx))]
            if all(c == "eq" for c in cmps):
                return term.arg(len(idx) + 1)
            if any(c == "ne" for c in cmps):
                term = term.arg(0)
                continue
        break
    return z3.Select(term, *idx) if len(idx) > 1 else term[idx[0]]


def is_int(v):
    return isinstance(v, (int, bool)) and not isinstance(v, float) or (z3.is_expr(v) and v.sort() == z3.IntSort())


def is_boolv(v):
    return isinstance(v, bool) or (z3.is_expr(v) and v.sort() == z3.BoolSort())


def is_concrete(v):
    return isinstance(v, (int, float, bool, Fraction)) and not z3.is_expr(v)


def zint(v):
    if isinstance(v, bool):
        return z3.IntVal(int(v))
    if isinstance(v, int):
        return z3.IntVal(v)
    if z3.is_expr(v) and v.sort() == z3.BoolSort():
        return z3.If(v, z3.IntVal(1), z3.IntVal(0))
    return v


def zbool(v):
    if isinstance(v, bool):
        return z3.BoolVal(v)
    if isinstance(v, int):
        return z3.BoolVal(v != 0)
    if z3.is_expr(v) and v.sort() == z3.IntSort():
        return v != 0
    return v


class Exec:
    def __init__(self, ctx, fsrc):
        self.ctx = ctx
        self.fm = ctx.fm
        self.fsrc = fsrc
        self.c = ctx.contract
        self.fname = self.c.short
        self.loop_ids = {id(n): i for i, n in enumerate(fsrc.loops)} if fsrc else {}
        self.spec_mode = False
        self.obl_names = {}
        self.hint_facts = []
        self.budget_s = int(ctx.options.get("gen_budget_s") or os.environ.get("HDCV_GEN_BUDGET_S", "600"))
        self.deadline = time.time() + self.budget_s

    # ------------------------------------------------------------------ obligations
    def emit(self, st, kind, name, goal, where="", by=None, extra_hyps=()):
        if goal is True:
            return
        if goal is False:
            goal = z3.BoolVal(False)
        if z3.is_true(goal):
            return
        base = f"{self.fname}/{kind}/{name}"
        if by is None:
            import re as _re
            for pat, b in self.ctx.options.get("by_id", []):
                if _re.search(pat, base):
                    by = b
                    break
        n = self.obl_names.get(base, 0)
        self.obl_names[base] = n + 1
        oid = base if n == 0 else f"{base}#{n}"
        o = Obl(oid, kind, list(st.pc) + list(extra_hyps), goal, where=where, model=self.fm.name, by=by)
        o.hyp_tags = [";".join(sorted(TAGS.get(h.get_id(), ()))) or None for h in o.hyps]
        only = (by or {}).get("only")
        if only is not None:
            keep = [(h, t) for h, t in zip(o.hyps, o.hyp_tags) if t is not None and any(tt.startswith(x) for tt in t.split(";") for x in list(only) + ["def:"])]
            o.hyps = [h for h, _ in keep]
            o.hyp_tags = [t for _, t in keep]
        self.ctx.obls.append(o)
        return o

    def where(self, node):
        return f"{self.fsrc.path}:{getattr(node, 'lineno', '?')}" if self.fsrc else ""

    # ------------------------------------------------------------------ numeric helpers
    def tofloat(self, v):
        fm = self.fm
        if isinstance(v, (bool, int)):
            return fm.const(int(v))
        if isinstance(v, (float, Fraction)):
            return fm.const(v)
        if fm.is_float(v):
            return v
        if type(v).__name__ == "NaNV":
            return fm.ufn("NaN", 0)() if False else z3.Const("NaN", fm.sort)
        if z3.is_expr(v) and v.sort() == z3.IntSort():
            return fm.from_int(v)
        if z3.is_expr(v) and v.sort() == z3.BoolSort():
            return z3.If(v, fm.const(1), fm.const(0))
        raise Unsupported(f"tofloat({v!r})")

    def isfloat(self, v):
        return isinstance(v, (float, Fraction)) and not isinstance(v, bool) or self.fm.is_float(v)

    def binop(self, op, a, b, st, node=None):
        fm = self.fm
        if isinstance(a, Obj) or isinstance(b, Obj):
            from . import pymodel
            r = pymodel.obj_binop(self, op, a, b, st, node)
            if r is not NotImplemented:
                return r
            raise Unsupported(f"operator {type(op).__name__} on {type(a).__name__}/{type(b).__name__}")
        if isinstance(a, Arr) or isinstance(b, Arr):
            return self.vec_binop(op, a, b, st, node)
        if is_concrete(a) and is_concrete(b):
            try:
                return self.concrete_binop(op, a, b)
            except ZeroDivisionError:
                self.emit(st, "div", "const_div_zero", False, self.where(node))
                return fresh("undef", fm.sort)
        if isinstance(op, ast.Div):
            fa, fb = self.tofloat(a), self.tofloat(b)
            if not self.spec_mode and self.ctx.options.get("div_obligations", True):
                nz = fm.ne(fb, fm.const(0)) if fm.name == "U" else fb != 0
                self.emit(st, "div", self.node_name(node, "div"), nz, self.where(node))
            return fm.div(fa, fb)
        if self.isfloat(a) or self.isfloat(b):
            fa, fb = self.tofloat(a), self.tofloat(b)
            if isinstance(op, ast.Add): return fm.add(fa, fb)
            if isinstance(op, ast.Sub): return fm.sub(fa, fb)
            if isinstance(op, ast.Mult): return fm.mul(fa, fb)
            if isinstance(op, ast.Pow): return self.fpow(fa, b, st, node)
            raise Unsupported(f"float op {type(op).__name__}")
        ia, ib = zint(a), zint(b)
        if isinstance(op, ast.Add): return ia + ib
        if isinstance(op, ast.Sub): return ia - ib
        if isinstance(op, ast.Mult): return ia * ib
        if isinstance(op, ast.FloorDiv):
            if not self.spec_mode:
                self.emit(st, "div", self.node_name(node, "floordiv"), ib != 0, self.where(node))
            return self.floordiv(ia, ib)
        if isinstance(op, ast.Mod):
            if not self.spec_mode:
                self.emit(st, "div", self.node_name(node, "mod"), ib != 0, self.where(node))
            return self.pymod(ia, ib)
        if isinstance(op, ast.Pow):
            if isinstance(b, int) and 0 <= b <= 4:
                r = z3.IntVal(1)
                for _ in range(b):
                    r = r * ia
                return r
            return self.fpow(self.tofloat(a), b, st, node)
        raise Unsupported(f"int op {type(op).__name__}")

    @staticmethod
    def floordiv(a, b):
        # Python floor division; z3 div is Euclidean (floor for positive divisors)
        if z3.is_int_value(b) and b.as_long() > 0:
            return a / b
        return z3.If(b > 0, a / b, (-a) / (-b))

    @staticmethod
    def pymod(a, b):
        if z3.is_int_value(b) and b.as_long() > 0:
            return a % b
        return z3.If(b > 0, a % b, -((-a) % (-b)))

    def fpow(self, fa, b, st, node):
        fm = self.fm
        if isinstance(b, int) and not isinstance(b, bool) and 0 <= b <= 4:
            if b == 0:
                return fm.const(1)
            r = fa
            for _ in range(b - 1):
                r = fm.mul(r, fa)
            return r
        if isinstance(b, float) and b == 0.5:
            return fm.call("sqrt", fa)
        return fm.call("pow", fa, self.tofloat(b))

    def concrete_binop(self, op, a, b):
        if isinstance(a, float) or isinstance(b, float):
            a = Fraction(repr(a)) if isinstance(a, float) else a
            b = Fraction(repr(b)) if isinstance(b, float) else b
        if isinstance(op, ast.Add): return a + b
        if isinstance(op, ast.Sub): return a - b
        if isinstance(op, ast.Mult): return a * b
        if isinstance(op, ast.Div):
            return Fraction(a) / Fraction(b)
        if isinstance(op, ast.FloorDiv): return a // b
        if isinstance(op, ast.Mod): return a % b
        if isinstance(op, ast.Pow):
            if isinstance(b, int) and (b >= 0 or isinstance(a, Fraction)):
                return Fraction(a) ** b if b < 0 else a ** b
            raise Unsupported("concrete pow")
        raise Unsupported(f"concrete op {op}")

    def node_name(self, node, default):
        if node is None:
            return default
        try:
            s = ast.unparse(node)
        except Exception:  # pragma: no cover
            s = default
        s = s.replace(" ", "")
        if len(s) > 48:
            s = s[:45] + "..."
        return f"L{getattr(node, 'lineno', 0)}:{s}"

    def compare(self, op, a, b, st):
        fm = self.fm
        if (a is None or b is None) and isinstance(op, (ast.Is, ast.IsNot, ast.Eq, ast.NotEq)):
            same = a is b
            return same if isinstance(op, (ast.Is, ast.Eq)) else not same
        if isinstance(a, Obj) or isinstance(b, Obj):
            from . import pymodel
            r = pymodel.obj_compare(self, op, a, b, st)
            if r is not NotImplemented:
                return r
            raise Unsupported(f"comparison {type(op).__name__} on {type(a).__name__}/{type(b).__name__}")
        if isinstance(a, Arr) or isinstance(b, Arr):
            return self.vec_compare(op, a, b, st)
        if a is None or b is None:
            if isinstance(op, (ast.Is, ast.Eq)):
                return a is b
            if isinstance(op, (ast.IsNot, ast.NotEq)):
                return a is not b
            raise Unsupported("None compare")
        if isinstance(a, str) or isinstance(b, str):
            if isinstance(op, ast.Eq): return a == b
            if isinstance(op, ast.NotEq): return a != b
            raise Unsupported("str compare")
        if is_concrete(a) and is_concrete(b):
            fa = Fraction(repr(a)) if isinstance(a, float) else a
            fb = Fraction(repr(b)) if isinstance(b, float) else b
            return {ast.Eq: fa == fb, ast.NotEq: fa != fb, ast.Lt: fa < fb, ast.LtE: fa <= fb, ast.Gt: fa > fb,
                    ast.GtE: fa >= fb}[type(op)]
        if self.isfloat(a) or self.isfloat(b):
            fa, fb = self.tofloat(a), self.tofloat(b)
            return {ast.Eq: fm.eq, ast.NotEq: fm.ne, ast.Lt: fm.lt, ast.LtE: fm.le, ast.Gt: fm.gt, ast.GtE: fm.ge}[type(op)](fa, fb)
        if is_boolv(a) and is_boolv(b) and isinstance(op, (ast.Eq, ast.NotEq)):
            r = zbool(a) == zbool(b)
            return r if isinstance(op, ast.Eq) else z3.Not(r)
        ia, ib = zint(a), zint(b)
        if isinstance(op, ast.Eq): return ia == ib
        if isinstance(op, ast.NotEq): return ia != ib
        if isinstance(op, ast.Lt): return ia < ib
        if isinstance(op, ast.LtE): return ia <= ib
        if isinstance(op, ast.Gt): return ia > ib
        if isinstance(op, ast.GtE): return ia >= ib
        raise Unsupported(f"compare {type(op).__name__}")

    # ------------------------------------------------------------------ arrays
    def new_array(self, st, shape, dtype, term=None, name="arr"):
        oid = self.ctx.new_oid()
        a = Arr(oid, shape, dtype, name=name)
        if term is None:
            term = fresh(name, self.ctx.arr_sort(dtype, len(shape)))
        st.heap[oid] = term
        return a

    def const_array(self, st, shape, dtype, value, name="arr"):
        es = self.ctx.elem_sort(dtype)
        if dtype in ("f8", "f4"):
            v = self.tofloat(value)
        elif dtype == "b1":
            v = zbool(value)
        else:
            v = zint(value)
        if len(shape) == 1:
            term = z3.K(z3.IntSort(), v)
        else:
            idx = [z3.Int(f"k!c{i}") for i in range(len(shape))]
            term = z3.Lambda(idx, v)
        return self.new_array(st, shape, dtype, term, name)

    def read(self, st, arr, idx, node=None, check=True):
        """idx: tuple of int values (python or z3)."""
        idx = tuple(idx)
        if len(idx) != arr.ndim:
            raise Unsupported(f"index arity {len(idx)} vs ndim {arr.ndim}")
        idx = self.norm_index(st, arr, idx, node, check)
        base, bidx = arr.map_index(idx)
        term = st.heap[base.oid]
        return sel(term, *bidx)

    def norm_index(self, st, arr, idx, node, check):
        out = []
        for k, (i, n) in enumerate(zip(idx, arr.shape)):
            if isinstance(i, int) and not isinstance(i, bool) and i < 0:
                # python negative index
                if isinstance(n, int):
                    j = n + i
                    if check and not self.spec_mode and j < 0:
                        self.emit(st, "index", self.node_name(node, "idx"), False, self.where(node))
                    out.append(j)
                    continue
                j = zint(n) + i
                if check and not self.spec_mode:
                    self.emit(st, "index", self.node_name(node, "idx"), j >= 0, self.where(node))
                out.append(j)
                continue
            if check and not self.spec_mode and self.ctx.options.get("index_obligations", True):
                if isinstance(i, int) and isinstance(n, int):
                    if not 0 <= i < n:
                        self.emit(st, "index", self.node_name(node, "idx"), False, self.where(node))
                else:
                    zi, zn = zint(i), zint(n)
                    self.emit(st, "index", self.node_name(node, "idx"), z3.And(zi >= 0, zi < zn), self.where(node))
            out.append(i)
        return tuple(out)

    def store(self, st, arr, idx, val, node=None):
        idx = tuple(idx)
        idx = self.norm_index(st, arr, idx, node, True)
        base, bidx = arr.map_index(idx)
        self.own_obligation(st, base, bidx, node)
        val = self.coerce_store(st, base.dtype, val, node)
        term = st.heap[base.oid]
        zi = [zint(i) for i in bidx]
        st.heap[base.oid] = z3.Store(term, *zi, val)
        if base.oid in st.written:
            st.written[base.oid] = z3.Store(st.written[base.oid], *zi, z3.BoolVal(True))

    def own_obligation(self, st, base, bidx, node):
        pr = st.extra.get("prange")
        if pr is None or base.oid not in pr[1]:
            return
        k = pr[0]
        comps = [zint(i) == k for i in bidx if not isinstance(i, slice)]
        self.emit(st, "own", self.node_name(node, "store"), z3.Or(*comps) if comps else z3.BoolVal(False), self.where(node))

    def coerce_store(self, st, dtype, val, node=None):
        fm = self.fm
        if dtype in ("f8", "f4"):
            return self.tofloat(val)
        if dtype == "b1":
            return zbool(val)
        # integer target
        if self.isfloat(val):
            iv = self.f2i_trunc(val)
        else:
            iv = zint(val)
        if self.ctx.options.get("cast_obligations", False) and dtype in INT_RANGE and dtype not in ("i8",):
            lo, hi = INT_RANGE[dtype]
            self.emit(st, "cast", self.node_name(node, f"to_{dtype}"), z3.And(iv >= lo, iv <= hi), self.where(node))
        return iv

    def f2i_trunc(self, fv):
        fm = self.fm
        if is_concrete(fv):
            return int(fv)
        if fm.name == "U":
            return fm.ufn("f2i", 1, z3.IntSort())(fv)
        # truncation toward zero
        t = z3.ToInt(fv)
        return z3.If(fv >= 0, t, z3.If(z3.ToReal(t) == fv, t, t + 1))

    def rint(self, fv):
        """numpy round half to even, as an Int."""
        fm = self.fm
        if fm.name == "U":
            return fm.ufn("rint", 1, z3.IntSort())(fv)
        f = z3.ToInt(fv)            # floor
        frac = fv - z3.ToReal(f)
        return z3.If(frac < z3.RealVal("1/2"), f, z3.If(frac > z3.RealVal("1/2"), f + 1, z3.If(f % 2 == 0, f, f + 1)))

    def elementwise(self, st, shape, dtype, fn, name="vec"):
        """new array with element k = fn(k) (k: tuple of z3 Int vars)."""
        ks = [z3.Int(f"k!e{next(_counter)}") for _ in shape]
        body = fn(tuple(ks))
        es = self.ctx.elem_sort(dtype)
        if dtype in ("f8", "f4"):
            body = self.tofloat(body)
        elif dtype == "b1":
            body = zbool(body)
        else:
            body = zint(body)
        term = z3.Lambda(ks, body)
        return self.new_array(st, shape, dtype, term, name)

    def same_shape(self, st, a, b, node):
        if a.ndim != b.ndim:
            raise Unsupported("broadcast between different ndim")
        for x, y in zip(a.shape, b.shape):
            if isinstance(x, int) and isinstance(y, int):
                if x != y:
                    self.emit(st, "shape", self.node_name(node, "shape"), False, self.where(node))
            elif not (z3.is_expr(x) and z3.is_expr(y) and x.eq(y)):
                if not self.spec_mode:
                    self.emit(st, "shape", self.node_name(node, "shape"), zint(x) == zint(y), self.where(node))

    def vec_binop(self, op, a, b, st, node):
        arr = a if isinstance(a, Arr) else b
        if isinstance(a, Arr) and isinstance(b, Arr):
            self.same_shape(st, a, b, node)
        fl = any(isinstance(v, Arr) and v.dtype in ("f8", "f4") or (not isinstance(v, Arr) and self.isfloat(v)) for v in (a, b)) \
            or isinstance(op, ast.Div) or (isinstance(op, ast.Pow) and not isinstance(b, int))
        dtype = "f8" if fl else ("i8" if arr.dtype != "b1" or True else "b1")
        saved = self.ctx.options.get("div_obligations", True)

        def fn(k):
            x = self.read(st, a, k, node, check=False) if isinstance(a, Arr) else a
            y = self.read(st, b, k, node, check=False) if isinstance(b, Arr) else b
            self.ctx.options["div_obligations"] = False   # numpy array division never raises
            try:
                return self.binop(op, x, y, st, node)
            finally:
                self.ctx.options["div_obligations"] = saved
        return self.elementwise(st, arr.shape, dtype, fn)

    def vec_compare(self, op, a, b, st):
        arr = a if isinstance(a, Arr) else b
        if isinstance(a, Arr) and isinstance(b, Arr):
            self.same_shape(st, a, b, None)

        def fn(k):
            x = self.read(st, a, k, None, check=False) if isinstance(a, Arr) else a
            y = self.read(st, b, k, None, check=False) if isinstance(b, Arr) else b
            return self.compare(op, x, y, st)
        return self.elementwise(st, arr.shape, "b1", fn, "mask")

    def copy_array(self, st, a, dtype=None, name="copy"):
        dtype = dtype or a.dtype
        if a.view is None and dtype == a.dtype:
            return self.new_array(st, a.shape, dtype, st.heap[a.oid], name)
        return self.elementwise(st, a.shape, dtype, lambda k: self.read(st, a, k, None, check=False), name)

    def assign_all(self, st, dst, src, node=None):
        """dst[...] = src for whole (possibly view) arrays; src scalar or array."""
        if isinstance(src, Arr):
            self.same_shape(st, dst, src, node)
        base, _ = dst.map_index(tuple(z3.Int(f"k!d{i}") for i in range(dst.ndim)))
        old = st.heap[base.oid]
        ks = [z3.Int(f"k!a{i}") for i in range(base.ndim)]

        if dst.view is None:
            self.own_obligation(st, base, [], node)

            def val(k):
                v = self.read(st, src, k, node, check=False) if isinstance(src, Arr) else src
                return self.coerce_elem(st, base.dtype, v, src if isinstance(src, Arr) else None)
            cond = z3.And(*[z3.And(k >= 0, k < zint(n)) for k, n in zip(ks, base.shape)])
            body = z3.If(cond, val(tuple(ks)), sel(old, *ks))
            st.heap[base.oid] = z3.Lambda(ks, body)
            if base.oid in st.written:
                w = st.written[base.oid]
                st.written[base.oid] = z3.Lambda(ks, z3.Or(cond, sel(w, *ks)))
            self.cast_all(st, base.dtype, src, node)
            return
        # view destination: 1-d views only (slices / fixed-index lines)
        if dst.ndim != 1:
            raise Unsupported("whole-assignment into n-d view")
        inv = dst.view_inverse() if hasattr(dst, "view_inverse") else None
        info = getattr(dst, "line", None)
        if info is None:
            raise Unsupported("whole-assignment into unsupported view")
        # info: (axis, fixed: dict axis->index, offset) relative to root
        axis, fixed, off = info
        self.own_obligation(st, base, [fixed[ax] for ax in sorted(fixed)], node)
        n = dst.shape[0]
        conds = []
        for ax, k in enumerate(ks):
            if ax == axis:
                conds.append(z3.And(k - zint(off) >= 0, k - zint(off) < zint(n)))
            else:
                conds.append(k == zint(fixed[ax]))
        cond = z3.And(*conds)
        j = ks[axis] - zint(off)
        v = self.read(st, src, (j,), node, check=False) if isinstance(src, Arr) else src
        v = self.coerce_elem(st, base.dtype, v, src if isinstance(src, Arr) else None)
        body = z3.If(cond, v, sel(old, *ks))
        st.heap[base.oid] = z3.Lambda(ks, body)
        if base.oid in st.written:
            w = st.written[base.oid]
            st.written[base.oid] = z3.Lambda(ks, z3.Or(cond, sel(w, *ks)))
        self.cast_all(st, base.dtype, src, node)

    def coerce_elem(self, st, dtype, v, srcarr):
        if dtype in ("f8", "f4"):
            return self.tofloat(v)
        if dtype == "b1":
            return zbool(v)
        if self.isfloat(v):
            return self.f2i_trunc(v)
        return zint(v)

    def cast_all(self, st, dtype, src, node):
        if not self.ctx.options.get("cast_obligations", False) or dtype not in INT_RANGE or dtype == "i8":
            return
        lo, hi = INT_RANGE[dtype]
        if isinstance(src, Arr):
            if src.dtype in INT_RANGE and INT_RANGE[src.dtype][0] >= lo and INT_RANGE[src.dtype][1] <= hi:
                return
            k = z3.Int(f"k!cast{next(_counter)}")
            ks = (k,) if src.ndim == 1 else tuple(z3.Int(f"k!cast{next(_counter)}") for _ in range(src.ndim))
            v = self.read(st, src, ks, node, check=False)
            iv = self.f2i_trunc(v) if self.isfloat(v) else zint(v)
            rng = z3.And(*[z3.And(kk >= 0, kk < zint(n)) for kk, n in zip(ks, src.shape)])
            self.emit(st, "cast", self.node_name(node, f"to_{dtype}"), z3.ForAll(list(ks), z3.Implies(rng, z3.And(iv >= lo, iv <= hi))), self.where(node))
        else:
            iv = self.f2i_trunc(src) if self.isfloat(src) else zint(src)
            self.emit(st, "cast", self.node_name(node, f"to_{dtype}"), z3.And(iv >= lo, iv <= hi), self.where(node))

    def make_line_view(self, arr, axis, fixed, off, length):
        """1-d view of `arr` (a root array or itself a line view) along `axis`."""
        if arr.view is not None:
            info = getattr(arr, "line", None)
            if info is None or arr.ndim != 1:
                raise Unsupported("view of view")
            raxis, rfixed, roff = info
            root = arr.root()
            v = Arr(root.oid, (length,), root.dtype, view=(root, None), name=arr.name)
            noff = self.binop(ast.Add(), roff, off, None)
            v.line = (raxis, rfixed, noff)
            v.view = (root, lambda idx, a=raxis, f=rfixed, o=noff, nd=root.ndim: tuple(
                (self.binop(ast.Add(), idx[0], o, None) if ax == a else f[ax]) for ax in range(nd)))
            return v
        v = Arr(arr.oid, (length,), arr.dtype, view=(arr, None), name=arr.name)
        v.line = (axis, dict(fixed), off)
        v.view = (arr, lambda idx, a=axis, f=dict(fixed), o=off, nd=arr.ndim: tuple(
            (self.binop(ast.Add(), idx[0], o, None) if ax == a else f[ax]) for ax in range(nd)))
        return v

    # ------------------------------------------------------------------ expressions
    def eval(self, node, st):
        m = getattr(self, "e_" + type(node).__name__, None)
        if m is None:
            raise Unsupported(f"expression {type(node).__name__} at {self.where(node)}")
        return m(node, st)

    def e_Constant(self, node, st):
        return node.value

    def e_Name(self, node, st):
        if node.id in st.env:
            return st.env[node.id]
        g = self.ctx.contract.globals_.get(node.id) if self.ctx.contract else None
        if g is not None:
            return g
        if node.id == "NotImplemented":
            return NotImplemented
        if self.spec_mode and node.id == "NaN":
            return z3.Const("NaN", self.fm.sort)
        r = self.resolve_global(node.id)
        if r is not None:
            return r
        raise Unsupported(f"unbound name {node.id} at {self.where(node)}")

    def resolve_global(self, name):
        from . import libmodels
        return libmodels.resolve_name(self, name)

    def e_Tuple(self, node, st):
        return Tup([self.eval(e, st) for e in node.elts])

    def e_List(self, node, st):
        return PList([self.eval(e, st) for e in node.elts])

    def e_Dict(self, node, st):
        from . import xmodel
        return xmodel.DictV([(self.eval(k, st), self.eval(v, st)) for k, v in zip(node.keys, node.values)])

    def e_Lambda(self, node, st):
        return Lam(node, dict(st.env))

    def e_BinOp(self, node, st):
        a = self.eval(node.left, st)
        b = self.eval(node.right, st)
        return self.binop(node.op, a, b, st, node)

    def e_UnaryOp(self, node, st):
        v = self.eval(node.operand, st)
        if isinstance(node.op, ast.USub):
            if isinstance(v, Arr):
                return self.elementwise(st, v.shape, v.dtype, lambda k: self.neg(self.read(st, v, k, node, check=False)))
            return self.neg(v)
        if isinstance(node.op, ast.UAdd):
            return v
        if isinstance(node.op, ast.Not):
            if isinstance(v, bool):
                return not v
            if v is None:
                return True
            if is_concrete(v):
                return not v
            return z3.Not(zbool(self.truthy(v)))
        if isinstance(node.op, ast.Invert):
            if isinstance(v, Arr) and v.dtype == "b1":
                return self.elementwise(st, v.shape, "b1", lambda k: z3.Not(self.read(st, v, k, node, check=False)), "mask")
            raise Unsupported("~ on non-bool-array")
        raise Unsupported("unary op")

    def neg(self, v):
        if is_concrete(v):
            return -v
        if self.isfloat(v):
            return self.fm.neg(v)
        return -zint(v)

    def truthy(self, v):
        if isinstance(v, bool):
            return v
        if v is None:
            return False
        if is_concrete(v):
            return v != 0
        if z3.is_expr(v):
            if v.sort() == z3.BoolSort():
                return v
            if v.sort() == z3.IntSort():
                return v != 0
            return self.fm.ne(v, self.fm.const(0))
        if isinstance(v, (Tup, PList)):
            return len(v.items) > 0
        raise Unsupported(f"truthiness of {v!r}")

    def e_BoolOp(self, node, st):
        # short circuit: later operands are evaluated under the guard of the earlier ones
        vals = []
        guards = []
        for e in node.values:
            sub = st
            if guards:
                sub = st.copy()
                for g in guards:
                    sub.assume(g)
            v = self.truthy(self.eval(e, sub))
            vals.append(v)
            if isinstance(node.op, ast.And):
                if v is False:
                    break
                guards.append(zbool(v))
            else:
                if v is True:
                    break
                guards.append(z3.Not(zbool(v)))
        if all(isinstance(v, bool) for v in vals):
            return all(vals) if isinstance(node.op, ast.And) else any(vals)
        zs = [zbool(v) for v in vals]
        return z3.And(*zs) if isinstance(node.op, ast.And) else z3.Or(*zs)

    def e_Compare(self, node, st):
        left = self.eval(node.left, st)
        res = []
        for op, r in zip(node.ops, node.comparators):
            right = self.eval(r, st)
            if isinstance(op, (ast.In, ast.NotIn)):
                if isinstance(right, (Tup, PList)):
                    items = [self.compare(ast.Eq(), left, x, st) for x in right.items]
                    v = any(items) if all(isinstance(i, bool) for i in items) else z3.Or(*[zbool(i) for i in items])
                    if isinstance(op, ast.NotIn):
                        v = (not v) if isinstance(v, bool) else z3.Not(v)
                    res.append(v)
                    left = right
                    continue
                if type(right).__name__ == "Dims":
                    from . import xmodel
                    v = xmodel.dims_contains(self, right, left)
                    if isinstance(op, ast.NotIn):
                        v = (not v) if isinstance(v, bool) else z3.Not(v)
                    res.append(v)
                    left = right
                    continue
                if isinstance(right, SpecSet):
                    v = right.contains(self, left)
                    if isinstance(op, ast.NotIn):
                        v = (not v) if isinstance(v, bool) else z3.Not(v)
                    res.append(v)
                    left = right
                    continue
                raise Unsupported("in")
            res.append(self.compare(op, left, right, st))
            left = right
        if len(res) == 1:
            return res[0]
        if all(isinstance(v, bool) for v in res):
            return all(res)
        return z3.And(*[zbool(v) for v in res])

    def e_IfExp(self, node, st):
        c = self.truthy(self.eval(node.test, st))
        if isinstance(c, bool):
            return self.eval(node.body if c else node.orelse, st)
        s1 = st.copy(); s1.assume(c)
        s2 = st.copy(); s2.assume(z3.Not(c))
        a = self.eval(node.body, s1)
        b = self.eval(node.orelse, s2)
        if isinstance(a, Arr) and isinstance(b, Arr):
            if a.dtype != b.dtype or a.ndim != b.ndim or a.view is not None or b.view is not None:
                raise Unsupported("conditional expression over incompatible arrays")
            self.same_shape(st, a, b, node)
            return self.new_array(st, a.shape, a.dtype, z3.If(zbool(c), st.heap[a.oid], st.heap[b.oid]), "choice")
        return self.ite(c, a, b)

    def ite(self, c, a, b):
        if isinstance(c, bool):
            return a if c else b
        if isinstance(a, Arr) or isinstance(b, Arr):
            if isinstance(a, Arr) and isinstance(b, Arr) and a.ndim == b.ndim == 1 and a.view is None and b.view is None:
                raise Unsupported("ite over arrays (handled by caller)")
            raise Unsupported("ite over arrays")
        if self.isfloat(a) or self.isfloat(b):
            return z3.If(c, self.tofloat(a), self.tofloat(b))
        if is_boolv(a) and is_boolv(b):
            return z3.If(c, zbool(a), zbool(b))
        return z3.If(c, zint(a), zint(b))

    def e_Attribute(self, node, st):
        v = self.eval(node.value, st)
        a = node.attr
        if isinstance(v, Arr):
            if a == "shape":
                return Tup(list(v.shape))
            if a == "size":
                r = v.shape[0]
                for s in v.shape[1:]:
                    r = self.binop(ast.Mult(), r, s, st)
                return r
            if a == "ndim":
                return v.ndim
            if a == "dtype":
                return DtypeRef(v.dtype)
            if a == "T" and v.ndim == 1:
                return v
            if a in ("values", "data"):
                return v
            return BoundMethod(v, a)
        if isinstance(v, DtypeRef):
            if a == "kind":
                return {"f": "f", "i": "i", "u": "u", "b": "b"}[v.code[0]]
        if isinstance(v, ModRef):
            from . import libmodels
            return libmodels.resolve_attr(self, v, a)
        if isinstance(v, PList) and a == "append":
            return BoundMethod(v, a, node.value)
        if isinstance(v, Obj):
            return v.getattr(self, a, st)
        raise Unsupported(f"attribute .{a} of {type(v).__name__} at {self.where(node)}")

    def e_Subscript(self, node, st):
        v = self.eval(node.value, st)
        return self.subscript(v, node.slice, st, node)

    def slice_bounds(self, sl, n, st, node):
        lo = self.eval(sl.lower, st) if sl.lower is not None else 0
        hi = self.eval(sl.upper, st) if sl.upper is not None else n
        if sl.step is not None:
            stp = self.eval(sl.step, st)
            if stp != 1:
                raise Unsupported("slice step")
        if isinstance(lo, int) and lo < 0:
            lo = self.binop(ast.Add(), n, lo, st)
        if isinstance(hi, int) and hi < 0:
            hi = self.binop(ast.Add(), n, hi, st)
        if self.ctx.options.get("slice_clamp") and (z3.is_expr(lo) or z3.is_expr(hi)) and (sl.lower is not None or sl.upper is not None):
            # numpy semantics: indices are clamped to [0, n]; an empty window when hi < lo
            zn, zl, zh = zint(n), zint(lo), zint(hi)
            zl = z3.If(zl < 0, z3.If(zl + zn < 0, z3.IntVal(0), zl + zn), z3.If(zl > zn, zn, zl))
            zh = z3.If(zh < 0, z3.If(zh + zn < 0, z3.IntVal(0), zh + zn), z3.If(zh > zn, zn, zh))
            zh = z3.If(zh < zl, zl, zh)
            return zl, zh, zh - zl
        symbolic = not (isinstance(lo, int) and (sl.upper is None or isinstance(hi, int) and isinstance(n, int)))
        if not self.spec_mode and (z3.is_expr(lo) or (sl.upper is not None and z3.is_expr(hi))) and (sl.lower is not None or sl.upper is not None):
            # numpy clamps; we demand the window to be inside (reported as 'slice' obligation)
            g = z3.And(zint(lo) >= 0, zint(lo) <= zint(hi), zint(hi) <= zint(n))
            self.emit(st, "slice", self.node_name(node, "slice"), g, self.where(node))
        length = self.binop(ast.Sub(), hi, lo, st)
        return lo, hi, length

    def subscript(self, v, sl, st, node):
        if isinstance(v, Tup) or isinstance(v, PList):
            if isinstance(sl, ast.Slice):
                lo = self.eval(sl.lower, st) if sl.lower else None
                hi = self.eval(sl.upper, st) if sl.upper else None
                return type(v)(v.items[lo:hi])
            i = self.eval(sl, st)
            if isinstance(i, int):
                if not -len(v.items) <= i < len(v.items):
                    # a Python list / tuple indexed out of range on this path: an index obligation that fails unless the path is infeasible
                    if not self.spec_mode:
                        self.emit(st, "index", self.node_name(node, "idx"), z3.BoolVal(False), self.where(node))
                    raise Unsupported(f"list index {i} out of range (length {len(v.items)}) at {self.where(node)}")
                return v.items[i]
            raise Unsupported("symbolic tuple index")
        if isinstance(v, Obj):
            return v.getitem(self, sl, st, node)
        if not isinstance(v, Arr):
            raise Unsupported(f"subscript of {type(v).__name__} at {self.where(node)}")
        elts = sl.elts if isinstance(sl, ast.Tuple) else [sl]
        if len(elts) != v.ndim:
            if len(elts) == 1 and not isinstance(elts[0], ast.Slice):
                # boolean mask / fancy indexing handled by libmodels
                idxv = self.eval(elts[0], st)
                if isinstance(idxv, Arr):
                    from . import libmodels
                    return libmodels.mask_read(self, st, v, idxv, node)
            raise Unsupported(f"partial indexing at {self.where(node)}")
        if all(not isinstance(e, ast.Slice) for e in elts):
            idx = [self.eval(e, st) for e in elts]
            if len(idx) == 1 and isinstance(idx[0], Arr):
                from . import libmodels
                return libmodels.mask_read(self, st, v, idx[0], node)
            return self.read(st, v, idx, node)
        nsl = sum(isinstance(e, ast.Slice) for e in elts)
        if nsl == 1:
            axis = [isinstance(e, ast.Slice) for e in elts].index(True)
            fixed = {}
            for ax, e in enumerate(elts):
                if ax != axis:
                    i = self.eval(e, st)
                    fixed[ax] = i
                    if not self.spec_mode:
                        self.norm_index(st, Arr(0, (v.shape[ax],), v.dtype), (i,), node, True)
            lo, hi, length = self.slice_bounds(elts[axis], v.shape[axis], st, node)
            if v.ndim == 1 and elts[axis].lower is None and elts[axis].upper is None:
                return v
            return self.make_line_view(v, axis, fixed, lo, length)
        if all(isinstance(e, ast.Slice) and e.lower is None and e.upper is None for e in elts):
            return v
        raise Unsupported(f"multi-slice at {self.where(node)}")

    def e_Call(self, node, st):
        from . import libmodels
        return libmodels.call(self, node, st)

    def e_ListComp(self, node, st):
        return CompRef(node, dict(st.env))

    def e_JoinedStr(self, node, st):
        from . import pymodel
        return pymodel.joined_str(self, node, st)

    # ------------------------------------------------------------------ statements
    def exec_block(self, stmts, st):
        """-> list of (state, Outcome)"""
        states = [(st, Outcome(NORMAL))]
        for s in stmts:
            nxt = []
            for (cur, oc) in states:
                if oc.kind != NORMAL:
                    nxt.append((cur, oc))
                    continue
                res = self.exec_stmt(s, cur)
                anchors = getattr(self.c, "anchors", None)
                if anchors and not isinstance(s, (ast.For, ast.If)):
                    txt = "after: " + ast.unparse(s)
                    for key in anchors:
                        # an anchor names the statement by its text or by a prefix of it (e.g. the assignment target)
                        if txt == key or (key.endswith("=") and txt.startswith(key + " ")) or (key.endswith("...") and txt.startswith(key[:-3])):
                            self.ctx.anchors_hit = getattr(self.ctx, "anchors_hit", set())
                            self.ctx.anchors_hit.add(key)
                            for c2, o2 in res:
                                if o2.kind == NORMAL:
                                    self.apply_hints(c2, anchors[key], self.where(s))
                nxt.extend(res)
            states = nxt
            if len(states) > self.ctx.options.get("max_paths", 4000):
                raise Unsupported(f"path explosion ({len(states)}) at {self.where(s)}")
        return states

    def exec_stmt(self, s, st):
        if time.time() > self.deadline:
            raise Unsupported(f"generation budget of {self.budget_s}s exceeded at {self.where(s)} (HDCV_GEN_BUDGET_S)")
        m = getattr(self, "s_" + type(s).__name__, None)
        if m is None:
            raise Unsupported(f"statement {type(s).__name__} at {self.where(s)}")
        return m(s, st)

    def s_FunctionDef(self, s, st):
        st.env[s.name] = FuncClosure(s, dict(st.env))
        return [(st, Outcome(NORMAL))]

    def call_closure(self, fc, args, st):
        sub = st.copy()
        sub.env = dict(fc.env)
        for p, a in zip(fc.node.args.args, args):
            sub.env[p.arg] = a
        sub.heap = st.heap
        res = self.exec_block(fc.node.body, sub)
        rets = [(c, o) for c, o in res if o.kind == RETURN]
        if len(res) != 1 or len(rets) != 1:
            raise Unsupported("nested function with several paths")
        cur, oc = rets[0]
        st.pc[:] = cur.pc
        st.heap.update(cur.heap)
        return oc.value

    def s_Pass(self, s, st):
        return [(st, Outcome(NORMAL))]

    def s_Expr(self, s, st):
        if isinstance(s.value, ast.Constant):
            return [(st, Outcome(NORMAL))]
        if isinstance(s.value, (ast.Yield, ast.YieldFrom)):
            v = self.eval(s.value.value, st)
            if st.extra.get("ygh"):
                from . import xmodel
                xmodel.record_yield(self, st, v)
            else:
                st.yields = st.yields + [v]
            return [(st, Outcome(NORMAL))]
        self.eval(s.value, st)
        return [(st, Outcome(NORMAL))]

    def s_Assert(self, s, st):
        c = self.truthy(self.eval(s.test, st))
        if self.ctx.options.get("asserts_as_obligations", True):
            self.emit(st, "assert", self.node_name(s.test, "assert"), zbool(c), self.where(s))
        st.assume(zbool(c))
        return [(st, Outcome(NORMAL))]

    def s_Return(self, s, st):
        v = self.eval(s.value, st) if s.value is not None else None
        return [(st, Outcome(RETURN, v))]

    def s_Break(self, s, st):
        return [(st, Outcome(BREAK))]

    def s_Continue(self, s, st):
        return [(st, Outcome(CONTINUE))]

    def s_Raise(self, s, st):
        name = None
        if s.exc is not None:
            e = s.exc
            if isinstance(e, ast.Call):
                e = e.func
            name = e.id if isinstance(e, ast.Name) else ast.unparse(e)
        return [(st, Outcome(RAISE, name))]

    def s_Assign(self, s, st):
        if len(s.targets) != 1:
            v = self.eval(s.value, st)
            for t in s.targets:
                self.assign(t, v, st, s)
            return [(st, Outcome(NORMAL))]
        tgt = s.targets[0]
        if isinstance(tgt, ast.Tuple) and isinstance(s.value, ast.Tuple) and len(tgt.elts) == len(s.value.elts):
            vals = [self.eval(e, st) for e in s.value.elts]
            for t, v in zip(tgt.elts, vals):
                self.assign(t, v, st, s)
            return [(st, Outcome(NORMAL))]
        # chained: a = b = expr appears as two targets; handled above
        v = self.eval(s.value, st)
        self.assign(tgt, v, st, s)
        return [(st, Outcome(NORMAL))]

    def s_AnnAssign(self, s, st):
        if s.value is not None:
            self.assign(s.target, self.eval(s.value, st), st, s)
        return [(st, Outcome(NORMAL))]

    def assign(self, tgt, v, st, node):
        if isinstance(tgt, ast.Name):
            st.env[tgt.id] = v
            return
        if isinstance(tgt, ast.Tuple):
            if isinstance(v, (Tup, PList)):
                items = v.items
            elif isinstance(v, Arr) and v.ndim == 1 and isinstance(v.shape[0], int):
                items = [self.read(st, v, (i,), node) for i in range(v.shape[0])]
            else:
                raise Unsupported(f"unpack of {type(v).__name__}")
            if len(items) != len(tgt.elts):
                raise Unsupported("unpack arity")
            for t, x in zip(tgt.elts, items):
                self.assign(t, x, st, node)
            return
        if isinstance(tgt, ast.Subscript):
            base = self.eval(tgt.value, st)
            if isinstance(base, Obj):
                base.setitem(self, tgt.slice, v, st, node)
                return
            if not isinstance(base, Arr):
                raise Unsupported("store into non-array")
            sl = tgt.slice
            elts = sl.elts if isinstance(sl, ast.Tuple) else [sl]
            if len(elts) == base.ndim and all(not isinstance(e, ast.Slice) for e in elts):
                idx = [self.eval(e, st) for e in elts]
                if len(idx) == 1 and isinstance(idx[0], Arr):
                    from . import libmodels
                    libmodels.mask_write(self, st, base, idx[0], v, node)
                    return
                self.store(st, base, idx, v, node)
                return
            if len(elts) == 1 and base.ndim > 1:
                raise Unsupported("partial store")
            # slice store
            dst = self.subscript(base, sl, st, tgt)
            if not isinstance(dst, Arr):
                raise Unsupported("slice store")
            self.assign_all(st, dst, v, node)
            return
        if isinstance(tgt, ast.Attribute):
            base = self.eval(tgt.value, st)
            if isinstance(base, Obj):
                base.setattr(self, tgt.attr, v, st)
                return
        raise Unsupported(f"assignment target {type(tgt).__name__}")

    def s_AugAssign(self, s, st):
        if isinstance(s.target, ast.Name):
            cur = self.eval(ast.Name(id=s.target.id, ctx=ast.Load(), lineno=s.lineno), st)
            v = self.eval(s.value, st)
            st.env[s.target.id] = self.binop(s.op, cur, v, st, s)
            return [(st, Outcome(NORMAL))]
        if isinstance(s.target, ast.Subscript):
            base = self.eval(s.target.value, st)
            sl = s.target.slice
            elts = sl.elts if isinstance(sl, ast.Tuple) else [sl]
            if isinstance(base, Arr) and all(not isinstance(e, ast.Slice) for e in elts):
                idx = [self.eval(e, st) for e in elts]
                cur = self.read(st, base, idx, s)
                v = self.eval(s.value, st)
                nv = self.binop(s.op, cur, v, st, s)
                if self.ctx.options.get("accum_obligations") and isinstance(s.op, ast.Add):
                    self.accum_obligation(st, base, cur, v, s)
                saved = self.ctx.options.get("index_obligations", True)
                self.ctx.options["index_obligations"] = False
                try:
                    self.store(st, base, idx, nv, s)
                finally:
                    self.ctx.options["index_obligations"] = saved
                return [(st, Outcome(NORMAL))]
        raise Unsupported("augmented assignment target")

    def accum_obligation(self, st, base, cur, v, node):
        """Accumulating with += into a float array: a counter is exact only below 2^24 (f4) / 2^53 (f8);
        a running sum meets one ulp of the output only when it is kept in float64 (a-priori bound
        (N-1)*u*sum|x|, stated assumption)."""
        dt = base.root().dtype
        if dt not in ("f4", "f8"):
            return
        exact = 2 ** 24 if dt == "f4" else 2 ** 53
        if isinstance(v, int) and not isinstance(v, bool):
            if self.fm.name in ("R", "M"):
                self.emit(st, "accum", self.node_name(node, "counter"), cur + v <= exact, self.where(node))
        else:
            self.emit(st, "accum", self.node_name(node, "sum"), z3.BoolVal(dt == "f8"), self.where(node))

    def s_If(self, s, st):
        c = self.truthy(self.eval(s.test, st))
        if isinstance(c, bool):
            return self.exec_block(s.body if c else s.orelse, st)
        c = zbool(c)
        out = []
        s1 = st.copy(); s1.assume(c, tag="path")
        s2 = st; s2.assume(z3.Not(c), tag="path")
        if self.feasible(s1):
            out.extend(self.exec_block(s.body, s1))
        if self.feasible(s2):
            out.extend(self.exec_block(s.orelse, s2))
        return out

    def feasible(self, st):
        """cheap syntactic infeasibility pruning + optional solver check."""
        if not self.ctx.options.get("prune_paths", False):
            return True
        s = z3.Solver()
        s.set("timeout", 2000)
        for a in self.ctx.axioms:
            s.add(a)
        for p in st.pc:
            s.add(p)
        return s.check() != z3.unsat

    def s_Try(self, s, st):
        # handlers are only reachable through modelled raising calls (none raise in our models)
        res = self.exec_block(s.body, st)
        out = []
        for (cur, oc) in res:
            if oc.kind == RAISE and any(self.handler_matches(h, oc.value) for h in s.handlers):
                h = [h for h in s.handlers if self.handler_matches(h, oc.value)][0]
                out.extend(self.exec_block(h.body, cur))
            else:
                out.append((cur, oc))
        return out

    @staticmethod
    def handler_matches(h, name):
        if h.type is None:
            return True
        t = h.type
        names = [e.id for e in t.elts] if isinstance(t, ast.Tuple) else [t.id if isinstance(t, ast.Name) else ast.unparse(t)]
        return name in names

    # ------------------------------------------------------------------ loops
    def s_For(self, s, st):
        from . import loops
        return loops.exec_for(self, s, st)


class FuncClosure:
    def __init__(self, node, env):
        self.node = node
        self.env = env


class BoundMethod:
    def __init__(self, obj, name, node=None):
        self.obj = obj
        self.name = name
        self.node = node


class CompRef:
    def __init__(self, node, env):
        self.node = node
        self.env = env


class StrV:
    def __init__(self, tag):
        self.tag = tag


class SpecSet:
    def contains(self, ex, v):  # pragma: no cover
        raise NotImplementedError


class Obj:
    """Opaque / structured object with custom attribute semantics (used by slicing-mode models)."""

    def getattr(self, ex, name, st):
        raise Unsupported(f"attribute {name} of {type(self).__name__}")

    def getitem(self, ex, sl, st, node):
        raise Unsupported(f"subscript of {type(self).__name__}")

    def setitem(self, ex, sl, v, st, node):
        raise Unsupported(f"item store on {type(self).__name__}")

    def setattr(self, ex, name, v, st):
        raise Unsupported(f"attribute store on {type(self).__name__}")

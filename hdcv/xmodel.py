"""Slicing-mode model of the xarray/pandas objects used by IterativeAggregation._iteragg (C19).

xarray payload operations are opaque; what is modelled is exactly what the index logic needs:
  obj.dims (membership of `dim`), obj[dim].size / obj.sizes[dim] / obj[dim].to_index() (axis length S),
  Index.get_indexer([label], method=...) -> one integer in [-1, S)  (-1 = "not located"; assumed pandas contract),
  Index[i], Index[a:b].size, obj[{dim: slice(a, b)}] (a window), .assign_attrs(dict), .reduce(func, dim, keep_attrs=True),
  .expand_dims(time=[obj.time[i].values]) and `yield` (recorded in ghost arrays YLO / YHI / YSTAMP / YSTART / YSTOP / YN, count yc).
"""
import ast

import z3

from .engine import Arr, Obj, Tup, PList, Unsupported, fresh, zint


class DictV(Obj):
    def __init__(self, items):
        self.items = items          # list of (key value, value)


class SliceV(Obj):
    def __init__(self, lo, hi):
        self.lo, self.hi = lo, hi


class Label(Obj):
    """an opaque coordinate label; `index`/`pos` say where it came from"""

    def __init__(self, tag, pos=None):
        self.tag, self.pos = tag, pos

    def getattr(self, ex, name, st):
        if name == "values":
            return self
        raise Unsupported(f"Label.{name}")


class StrOf(Obj):
    def __init__(self, label):
        self.label = label


class IndexObj(Obj):
    def __init__(self, size, base=0):
        self.size, self.base = size, base

    def getattr(self, ex, name, st):
        if name == "size":
            return self.size
        raise Unsupported(f"Index.{name}")

    def getitem(self, ex, sl, st, node):
        if isinstance(sl, ast.Slice):
            lo = ex.eval(sl.lower, st) if sl.lower is not None else 0
            hi = ex.eval(sl.upper, st) if sl.upper is not None else self.size
            return IndexObj(zint(hi) - zint(lo), zint(self.base) + zint(lo))
        i = ex.eval(sl, st)
        if not ex.spec_mode:
            ex.emit(st, "index", ex.node_name(node, "idx"), z3.And(zint(i) >= -zint(self.size), zint(i) < zint(self.size)), ex.where(node))
        return Label("index", zint(self.base) + zint(i))

    def call_method(self, ex, name, node, st):
        if name == "get_indexer":
            ex.ctx.assumed.add("pandas Index.get_indexer([x], method): one integer in [-1, size), -1 = not located, never raises KeyError")
            kind = st.extra.get("indexer_calls", 0)
            st.extra = dict(st.extra)
            st.extra["indexer_calls"] = kind + 1
            labels = ex.eval(node.args[0], st)
            lab = labels.items[0] if isinstance(labels, (PList, Tup)) else labels
            pos = getattr(lab, "pos", None)
            if pos is None:
                raise Unsupported("get_indexer of an unknown label")
            a = ex.new_array(st, (1,), "i8", None, "indexer")
            st.assume(z3.And(ex.read(st, a, (0,), node, check=False) == zint(pos)))
            return a
        raise Unsupported(f"Index.{name}")


class DimObj(Obj):
    def __init__(self, size, name):
        self.size, self.name = size, name

    def getattr(self, ex, name, st):
        if name == "size":
            return self.size
        raise Unsupported(f"DataArray[{self.name}].{name}")

    def call_method(self, ex, name, node, st):
        if name == "to_index":
            return IndexObj(self.size)
        raise Unsupported(f"coordinate.{name}")

    def getitem(self, ex, sl, st, node):
        i = ex.eval(sl, st)
        return Label("time", zint(i))


class Sizes(Obj):
    def __init__(self, x):
        self.x = x

    def getitem(self, ex, sl, st, node):
        return self.x.size


class Dims(Obj):
    def __init__(self, x):
        self.x = x


class XObj(Obj):
    """the xarray object: axis `dimname` of symbolic length `size`; window/attrs/reduction recorded"""

    def __init__(self, dimname, size, has_dim, lo=None, hi=None, attrs=None, func=None, stamp=None):
        self.dimname, self.size, self.has_dim = dimname, size, has_dim
        self.lo, self.hi, self.attrs, self.func, self.stamp = lo, hi, attrs, func, stamp

    def clone(self, **kw):
        d = dict(dimname=self.dimname, size=self.size, has_dim=self.has_dim, lo=self.lo, hi=self.hi, attrs=self.attrs, func=self.func, stamp=self.stamp)
        d.update(kw)
        return XObj(**d)

    def getattr(self, ex, name, st):
        if name == "dims":
            return Dims(self)
        if name == "sizes":
            return Sizes(self)
        if name == "time":
            return DimObj(self.size, "time")
        raise Unsupported(f"xarray object .{name}")

    def getitem(self, ex, sl, st, node):
        v = ex.eval(sl, st)
        if isinstance(v, str):
            return DimObj(self.size, v)
        if isinstance(v, DictV):
            (k, s), = v.items
            if not isinstance(s, SliceV):
                raise Unsupported("region value")
            if not ex.spec_mode:
                ex.emit(st, "slice", ex.node_name(node, "window"), z3.And(zint(s.lo) >= 0, zint(s.lo) <= zint(s.hi), zint(s.hi) <= zint(self.size)), ex.where(node))
            return self.clone(lo=s.lo, hi=s.hi)
        raise Unsupported("xarray object subscript")

    def call_method(self, ex, name, node, st):
        if name == "assign_attrs":
            return self.clone(attrs=ex.eval(node.args[0], st))
        if name == "reduce":
            f = ex.eval(node.args[0], st)
            kw = {k.arg: ex.eval(k.value, st) for k in node.keywords}
            if kw.get("keep_attrs") is not True:
                return self.clone(func=f, attrs=None)
            return self.clone(func=f)
        if name == "expand_dims":
            kw = {k.arg: ex.eval(k.value, st) for k in node.keywords}
            lab = kw.get("time")
            lab = lab.items[0] if isinstance(lab, (PList, Tup)) else lab
            return self.clone(stamp=getattr(lab, "pos", None))
        raise Unsupported(f"xarray object .{name}()")


class SelfObj(Obj):
    def __init__(self, x):
        self.x = x

    def getattr(self, ex, name, st):
        if name == "_obj":
            return self.x
        raise Unsupported(f"self.{name}")


class OpaqueFunc(Obj):
    def __init__(self, tag):
        self.tag = tag


def dims_contains(ex, dims, v):
    return dims.x.has_dim


def record_yield(ex, st, v):
    """ghost arrays describing the yielded sequence"""
    g = st.extra.get("ygh")
    if g is None:
        raise Unsupported("yield without ghost arrays")
    yc = st.env["yc"]
    def put(name, val):
        a = st.env[name]
        st.heap[a.oid] = z3.Store(st.heap[a.oid], zint(yc), zint(val))
    if not isinstance(v, XObj) or v.lo is None:
        raise Unsupported("yield of a non-window object")
    put("YLO", v.lo); put("YHI", v.hi)
    put("YSTAMP", v.stamp if v.stamp is not None else -1)
    put("YRED", 1 if v.func is not None else 0)
    at = {}
    if isinstance(v.attrs, DictV):
        for k, val in v.attrs.items:
            at[k] = val
    def pos_of(x):
        if isinstance(x, StrOf):
            x = x.label
        return getattr(x, "pos", None)
    put("YSTART", pos_of(at.get("agg_start")) if pos_of(at.get("agg_start")) is not None else -1)
    put("YSTOP", pos_of(at.get("agg_stop")) if pos_of(at.get("agg_stop")) is not None else -1)
    n_attr = at.get("agg_n")
    put("YN", n_attr if n_attr is not None and not isinstance(n_attr, Obj) else -1)
    st.env["yc"] = zint(yc) + 1

"""Lockstep self-composition (two runs of the same real AST) for relational properties in model U.

Both runs are executed by the ordinary symbolic executor, statement by statement in lockstep, on two sets of
input symbols that share the non-varying parameters.  Callee results, numpy reductions and loops are
*deterministic functions of the in-range values they read* (value functions over restricted arrays,
loops.summarise_loop), every floating-point operation is an uninterpreted function: equal inputs give equal
outputs bit for bit, nothing is assumed about rounding.

After every statement the variables it assigns are compared across the two runs; an equality (scalars) or
in-range pointwise equality (arrays) that the solver proves *at that point* is recorded as a discharged
lemma obligation (`rel.lemma`) and carried forward -- this keeps each query small.  A guard is shown equal
in both runs (then the runs branch together) or the four combinations are explored.  At every pair of return
points the relational postcondition is an obligation  pc_1 /\\ pc_2 /\\ relational precondition |- post."""
import ast
import os
import time

import z3

from . import frontend, spec, verify
from .engine import Arr, Ctx, Exec, NORMAL, Obl, Outcome, RETURN, BREAK, CONTINUE, RAISE, State, Tup, PList, Unsupported, fresh, sel, zbool, zint
from .loops import scan_modified, havoc
from .verify import FuncResult, parse_type


def _entry(ex, c, fs, suffix, shared, dims):
    st = State()
    for p in fs.params:
        ty = c.params.get(p)
        if ty is None:
            if p in fs.defaults:
                st.env[p] = ex.eval(fs.defaults[p], State())
                continue
            raise frontend.BindingFailure(f"{c.short}: parameter {p} has no type")
        t = parse_type(ty)
        vary = p in c.options["rel_vary"] or p in c.modifies
        name = f"{p}_{suffix}" if vary else p
        if not vary and p in shared:
            st.env[p] = shared[p]
            if isinstance(shared[p], Arr):
                st.heap[shared[p].oid] = shared[(p, "term")]
            continue
        if t["kind"] == "array":
            shape = []
            for d in t["dims"]:
                if isinstance(d, int):
                    shape.append(d)
                else:
                    if d not in dims:
                        dims[d] = z3.Int(d)
                    shape.append(dims[d])
            a = Arr(ex.ctx.new_oid(), tuple(shape), t["dtype"], name=name)
            term = z3.Const(name, ex.ctx.arr_sort(t["dtype"], len(shape)))
            st.heap[a.oid] = term
            st.env[p] = a
            if not vary:
                shared[p] = a
                shared[(p, "term")] = term
        elif t["kind"] == "scalar":
            v = z3.Const(name, ex.ctx.elem_sort(t["dtype"]))
            st.env[p] = v
            if not vary:
                shared[p] = v
        else:
            st.env[p] = t["value"]
    for d, v in dims.items():
        st.env.setdefault(d, v)
        st.assume(v >= 0)
    st.old = {"env": dict(st.env), "heap": dict(st.heap)}
    return st


class Rel:
    def __init__(self, ex, c, fs, relpre):
        self.ex, self.c, self.fs, self.relpre = ex, c, fs, relpre
        self.lemmas = []
        self.extra = []
        self.nq = 0

    def prove(self, s1, s2, goal, timeout=None):
        """one lockstep query, in a forked child with a hard wall-clock limit (z3's own timeout is not always honoured
        inside quantifier instantiation); anything but `unsat` means: no lemma is carried forward"""
        if timeout is None:
            timeout = int(int(os.environ.get("HDCV_REL_TIMEOUT_MS", "4000")) * float(os.environ.get("HDCV_LOAD_SCALE", "1")))
        self.nq += 1
        t0 = time.time()
        rfd, wfd = os.pipe()
        pid = os.fork()
        if pid == 0:
            try:
                os.close(rfd)
                s = z3.Solver()
                s.set("timeout", timeout)
                for a in self.ex.ctx.axioms:
                    s.add(a)
                for h in self.relpre:
                    s.add(h)
                for h in s1.pc:
                    s.add(h)
                for h in s2.pc:
                    s.add(h)
                s.add(z3.Not(goal))
                r = s.check()
                os.write(wfd, b"U" if r == z3.unsat else b"N")
            finally:
                os._exit(0)
        os.close(wfd)
        import select
        ok = False
        rd, _, _ = select.select([rfd], [], [], timeout / 1000.0 + 2.0)
        if rd:
            ok = os.read(rfd, 1) == b"U"
        else:
            try:
                os.kill(pid, 9)
            except OSError:
                pass
        os.close(rfd)
        os.waitpid(pid, 0)
        if not ok:
            self.nopen = getattr(self, "nopen", 0) + 1
            if self.nopen > int(self.c.options.get("rel_max_open", 60)):
                raise Unsupported(f"relational lockstep lost: {self.nopen} similarity queries left open")
        if os.environ.get("HDCV_REL_TRACE"):
            print(f"[rel] query {self.nq} {'unsat' if ok else 'open'} {time.time() - t0:.2f}s", flush=True)
        return ok, time.time() - t0

    def record(self, s1, s2, name, goal, dt):
        o = Obl(f"{self.ex.fname}/rel.lemma/{name}#{len(self.lemmas)}", "rel.lemma", list(self.relpre) + list(s1.pc) + list(s2.pc), goal, model="U")
        o.verdict, o.backend, o.time = "discharged", "z3", dt
        o.presolved = True
        self.lemmas.append(o)

    def similar(self, s1, s2, name, where):
        """try to prove that `name` holds the same value in both runs; proved facts are carried forward.  -> bool"""
        v1, v2 = s1.env.get(name), s2.env.get(name)
        if v1 is None or v2 is None:
            return False
        if v1 is v2:
            return True
        return self.similar_values(s1, s2, name, v1, v2, where)

    def sim_goal(self, s1, s2, v1, v2):
        """the similarity formula of two values (None: not comparable, True: trivially the same)"""
        ex = self.ex
        if isinstance(v1, (Tup, PList)) and isinstance(v2, (Tup, PList)) and len(v1.items) == len(v2.items):
            gs = [self.sim_goal(s1, s2, x, y) for x, y in zip(v1.items, v2.items)]
            if any(g is None for g in gs):
                return None
            gs = [g for g in gs if g is not True]
            return z3.And(*gs) if gs else True
        if isinstance(v1, Arr) and isinstance(v2, Arr):
            if v1.ndim != v2.ndim or v1.dtype != v2.dtype:
                return None
            if v1.root().oid == v2.root().oid and s1.heap[v1.root().oid].eq(s2.heap[v2.root().oid]):
                return True
            if all(isinstance(n, int) for n in v1.shape) and all(isinstance(n, int) for n in v2.shape) and v1.shape == v2.shape:
                import itertools
                cells = list(itertools.product(*[range(n) for n in v1.shape]))
                if len(cells) <= 8:
                    # small concrete arrays (e.g. the scalar output lopt): ground equalities, no quantifier to instantiate
                    return z3.And(*[ex.read(s1, v1, c, None, check=False) == ex.read(s2, v2, c, None, check=False) for c in cells]) if cells else True
            ks = [z3.Int(f"k!sim{i}") for i in range(v1.ndim)]
            rng = z3.And(*[z3.And(k >= 0, k < zint(n)) for k, n in zip(ks, v1.shape)])
            shp = z3.And(*[zint(x) == zint(y) for x, y in zip(v1.shape, v2.shape)])
            a1 = ex.read(s1, v1, ks, None, check=False)
            a2 = ex.read(s2, v2, ks, None, check=False)
            if z3.is_app(a1) and a1.decl().kind() == z3.Z3_OP_SELECT:
                try:
                    return z3.And(shp, z3.ForAll(ks, z3.Implies(rng, a1 == a2), patterns=[a1]))
                except z3.Z3Exception:
                    pass
            return z3.And(shp, z3.ForAll(ks, z3.Implies(rng, a1 == a2)))
        if z3.is_expr(v1) and z3.is_expr(v2) and v1.sort() == v2.sort():
            return True if v1.eq(v2) else v1 == v2
        if isinstance(v1, (int, float, bool, str, type(None))) and type(v1) is type(v2):
            return True if v1 == v2 else None
        return None

    def similar_values(self, s1, s2, name, v1, v2, where):
        if isinstance(v1, (Tup, PList)) and isinstance(v2, (Tup, PList)) and len(v1.items) == len(v2.items):
            oks = [self.similar_values(s1, s2, f"{name}.{i}", x, y, where) for i, (x, y) in enumerate(zip(v1.items, v2.items))]
            return all(oks)
        goal = self.sim_goal(s1, s2, v1, v2)
        if goal is None:
            return False
        if goal is True:
            return True
        ok, dt = self.prove(s1, s2, goal)
        if not ok:
            ok, dt = self.by_congruence(s1, s2, v1, v2, goal)
        if ok:
            self.record(s1, s2, f"{name}@{where}", goal, dt)
            s1.assume(goal, tag="rel:lemma")
            s2.assume(goal, tag="rel:lemma")
        elif os.environ.get("HDCV_REL_TRACE"):
            print(f"[rel]   not shown similar: {name}@{where}", flush=True)
        return ok

    def by_congruence(self, s1, s2, v1, v2, goal):
        """both values are applications of the same deterministic function (a loop summary, a callee, np.sum ...): show the
        arguments equal one by one (small queries) and conclude by congruence, instead of asking for everything at once"""
        t1 = s1.heap.get(v1.oid) if isinstance(v1, Arr) and v1.view is None else (v1 if z3.is_expr(v1) else None)
        t2 = s2.heap.get(v2.oid) if isinstance(v2, Arr) and v2.view is None else (v2 if z3.is_expr(v2) else None)
        if t1 is None or t2 is None or not (z3.is_app(t1) and z3.is_app(t2)) or t1.num_args() == 0:
            return False, 0.0
        if t1.decl().kind() != z3.Z3_OP_UNINTERPRETED or not t1.decl().eq(t2.decl()) or t1.num_args() != t2.num_args():
            return False, 0.0
        t0 = time.time()
        x, y = s1.copy(), s2.copy()
        for a1, a2 in zip(t1.children(), t2.children()):
            if a1.eq(a2):
                continue
            ok, _ = self.prove(x, y, a1 == a2)
            if not ok:
                return False, time.time() - t0
            x.assume(a1 == a2)
            y.assume(a1 == a2)
        ok, _ = self.prove(x, y, goal)
        return ok, time.time() - t0

    def obligation(self, s1, s2, kind, name, goal):
        """an obligation that is not decided on the spot: discharged by the portfolio with everything else; assumed to continue"""
        o = Obl(f"{self.ex.fname}/{kind}/{name}#{len(self.extra)}", kind, list(self.relpre) + list(s1.pc) + list(s2.pc), goal, model="U")
        self.extra.append(o)


def exec_pair(rel, stmts, s1, s2):
    """-> list of (s1, s2, kind, v1, v2) ; kind in NORMAL / RETURN"""
    ex = rel.ex
    pairs = [(s1, s2)]
    done = []
    for stmt in stmts:
        nxt = []
        for (a, b) in pairs:
            if isinstance(stmt, ast.For) and rel.c.options.get("rel_lockstep") and not _is_range_loop(stmt) and isinstance(stmt.target, ast.Name):
                # a loop over the elements of a short array of literal length (e.g. the single lambda of the later robust rounds):
                # unrolled in lockstep, element by element, so that branches inside the body stay paired
                it1, it2 = ex.eval(stmt.iter, a), ex.eval(stmt.iter, b)
                if isinstance(it1, Arr) and isinstance(it2, Arr) and it1.ndim == 1 and it2.ndim == 1 and isinstance(it1.shape[0], int) \
                        and it1.shape[0] == it2.shape[0] and it1.shape[0] <= 6:
                    cur, outs = [(a, b)], []
                    for kv in range(it1.shape[0]):
                        nx = []
                        for (x, y) in cur:
                            x.env[stmt.target.id] = ex.read(x, it1, (kv,), stmt, check=False)
                            y.env[stmt.target.id] = ex.read(y, it2, (kv,), stmt, check=False)
                            rel.similar(x, y, stmt.target.id, f"L{stmt.lineno}.elt{kv}")
                            for (p_, q_, kind, v1, v2) in exec_pair(rel, stmt.body, x, y):
                                if kind in (NORMAL, CONTINUE):
                                    nx.append((p_, q_))
                                elif kind == BREAK:
                                    outs.append((p_, q_, NORMAL, None, None))
                                else:
                                    outs.append((p_, q_, kind, v1, v2))
                        cur = nx
                    for r in outs + [(p_, q_, NORMAL, None, None) for (p_, q_) in cur]:
                        (nxt if r[2] == NORMAL else done).append(r if r[2] != NORMAL else (r[0], r[1]))
                    continue
            if isinstance(stmt, ast.For) and rel.c.options.get("rel_lockstep") and _is_range_loop(stmt):
                for r in lockstep_for(rel, stmt, a, b):
                    (nxt if r[2] == NORMAL else done).append(r if r[2] != NORMAL else (r[0], r[1]))
                continue
            if isinstance(stmt, ast.If):
                glog = ex.ctx.__dict__.setdefault("restrict_log", [])
                g0 = len(glog)
                c1 = ex.truthy(ex.eval(stmt.test, a))
                g1 = len(glog)
                c2 = ex.truthy(ex.eval(stmt.test, b))
                g2 = len(glog)
                if isinstance(c1, bool) and isinstance(c2, bool):
                    if c1 != c2:
                        raise Unsupported("guards differ concretely in the two runs")
                    for r in exec_pair(rel, stmt.body if c1 else stmt.orelse, a, b):
                        (nxt if r[2] == NORMAL else done).append(r if r[2] != NORMAL else (r[0], r[1]))
                    continue
                c1, c2 = zbool(c1), zbool(c2)
                same, dt = rel.prove(a, b, c1 == c2)
                if not same and g1 - g0 == g2 - g1 and g1 > g0:
                    # the guards apply deterministic functions to arrays (np.max(np.abs(r_sel)) ...): pair the restricted arguments
                    got = False
                    a2, b2 = a.copy(), b.copy()
                    for (k1, nd1), (k2, nd2) in zip(glog[g0:g1], glog[g1:g2]):
                        if nd1 != nd2 or k1.sort() != k2.sort() or k1.eq(k2):
                            continue
                        ks = [z3.Int(f"k!rq{i}") for i in range(nd1)]
                        cell = z3.ForAll(ks, sel(k1, *ks) == sel(k2, *ks))
                        okc, dtc = rel.prove(a2, b2, cell)
                        if not okc:
                            break
                        rel.record(a2, b2, f"restricted@L{stmt.lineno}.guard", cell, dtc)
                        a2.assume(k1 == k2, tag="rel:lemma")
                        b2.assume(k1 == k2, tag="rel:lemma")
                        got = True
                    if got:
                        same, dt = rel.prove(a2, b2, c1 == c2)
                combos = [(True, True), (False, False)] if same else [(True, True), (True, False), (False, True), (False, False)]
                if same:
                    rel.record(a, b, f"guard@L{stmt.lineno}", c1 == c2, dt)
                for (t1, t2) in combos:
                    x, y = a.copy(), b.copy()
                    x.assume(c1 if t1 else z3.Not(c1), tag="path")
                    y.assume(c2 if t2 else z3.Not(c2), tag="path")
                    if same:
                        x.assume(c2 if t2 else z3.Not(c2), tag="path")
                        y.assume(c1 if t1 else z3.Not(c1), tag="path")
                    if t1 == t2:
                        res = exec_pair(rel, stmt.body if t1 else stmt.orelse, x, y)
                    else:
                        # the runs take different branches: executed independently, re-joined after the statement
                        r1 = ex.exec_block(stmt.body if t1 else stmt.orelse, x)
                        r2 = ex.exec_block(stmt.body if t2 else stmt.orelse, y)
                        res = [(p, q, (o1.kind if o1.kind == o2.kind else "mixed"), o1.value, o2.value) for p, o1 in r1 for q, o2 in r2]
                        if any(r[2] == "mixed" for r in res):
                            raise Unsupported("the two runs leave a conditional in different ways")
                    for r in res:
                        (nxt if r[2] == NORMAL else done).append(r if r[2] != NORMAL else (r[0], r[1]))
                continue
            log = ex.ctx.__dict__.setdefault("restrict_log", [])
            n0 = len(log)
            r1 = ex.exec_stmt(stmt, a)
            n1 = len(log)
            r2 = ex.exec_stmt(stmt, b)
            n2 = len(log)
            def pair_restricted(x, y):
                """arrays that the two runs handed to deterministic functions (np.sum, np.median, callees) in this statement, in
                evaluation order: show each pair equal cell by cell and record the equality of the restricted arrays themselves
                (extensionality), so that nested applications f(g(x)) are equal by congruence instead of by a search.  Used only when
                a similarity is not found without it (the extra array equalities slow other queries down)."""
                if not (n1 - n0 == n2 - n1 and n1 > n0):
                    if os.environ.get("HDCV_REL_TRACE"):
                        print(f"[rel]   no pairing at L{stmt.lineno}: {n1 - n0} restricted arrays in run 1, {n2 - n1} in run 2", flush=True)
                    return False
                got = False
                for (c1, nd1), (c2, nd2) in zip(log[n0:n1], log[n1:n2]):
                    if nd1 != nd2 or c1.sort() != c2.sort() or c1.eq(c2):
                        continue
                    ks = [z3.Int(f"k!rq{i}") for i in range(nd1)]
                    cell = z3.ForAll(ks, sel(c1, *ks) == sel(c2, *ks))
                    ok, dt = rel.prove(x, y, cell)
                    if os.environ.get("HDCV_REL_TRACE"):
                        print(f"[rel]   pairing at L{stmt.lineno}: {c1} ~ {c2}: {'equal' if ok else 'open'} ({dt:.2f}s)", flush=True)
                    if not ok:
                        break
                    rel.record(x, y, f"restricted@L{stmt.lineno}", cell, dt)
                    x.assume(c1 == c2, tag="rel:lemma")
                    y.assume(c1 == c2, tag="rel:lemma")
                    got = True
                return got
            assigned, stored = scan_modified([stmt])
            for (x, o1) in r1:
                for (y, o2) in r2:
                    if o1.kind != o2.kind:
                        raise Unsupported("the two runs leave a statement in different ways")
                    if len(r1) > 1 or len(r2) > 1:
                        x, y = x.copy(), y.copy()
                    if o1.kind == NORMAL:
                        open_ = [nm for nm in sorted(assigned | stored) if not rel.similar(x, y, nm, f"L{stmt.lineno}") and nm in x.env and nm in y.env]
                        if open_ and len(r1) == 1 and len(r2) == 1:
                            # the array equalities are scaffolding: they live in scratch copies of the two states, only the similarity
                            # of the assigned variables is carried forward
                            x2, y2 = x.copy(), y.copy()
                            if pair_restricted(x2, y2):
                                for nm in open_:
                                    g = rel.sim_goal(x2, y2, x2.env[nm], y2.env[nm])
                                    if g is None or g is True:
                                        continue
                                    ok, dt = rel.prove(x2, y2, g)
                                    if ok:
                                        rel.record(x2, y2, f"{nm}@L{stmt.lineno}+", g, dt)
                                        x.assume(g, tag="rel:lemma")
                                        y.assume(g, tag="rel:lemma")
                        nxt.append((x, y))
                    elif o1.kind == RETURN:
                        done.append((x, y, RETURN, o1.value, o2.value))
                    elif o1.kind in (BREAK, CONTINUE):
                        done.append((x, y, o1.kind, None, None))
                    else:
                        raise Unsupported(f"outcome {o1.kind} in relational mode")
        pairs = nxt
    return [(a, b, NORMAL, None, None) for (a, b) in pairs] + done


def _is_range_loop(stmt):
    it = stmt.iter
    return isinstance(it, ast.Call) and isinstance(it.func, ast.Name) and it.func.id in ("range", "prange") and isinstance(stmt.target, ast.Name)


def _range_bounds(ex, it, st):
    if not (isinstance(it, ast.Call) and isinstance(it.func, ast.Name) and it.func.id in ("range", "prange")):
        raise Unsupported("lockstep loop over something other than range(...)")
    args = [ex.eval(x, st) for x in it.args]
    if len(args) == 1:
        return 0, args[0], 1
    if len(args) == 2:
        return args[0], args[1], 1
    lo, hi, step = args
    if step not in (1, -1):
        raise Unsupported("lockstep loop with a step other than +-1")
    return lo, hi, step


def lockstep_for(rel, stmt, a, b):
    """Both runs execute the loop in lockstep (same bounds, proved).  Relational invariant: every variable the loop modifies that holds
    the same value in both runs at entry holds the same value at every loop head (checked: initiation by the entry lemmas, preservation
    as obligations); unary invariants of the sidecar (per run) are established the usual way.  -> list of (s1, s2, kind, v1, v2)"""
    ex = rel.ex
    ordn = ex.loop_ids.get(id(stmt))
    spec_ = rel.c.loops.get(ordn) or {}
    where = f"L{stmt.lineno}"
    if not isinstance(stmt.target, ast.Name):
        raise Unsupported("tuple loop target in lockstep mode")
    idx = stmt.target.id
    lo1, hi1, st1 = _range_bounds(ex, stmt.iter, a)
    lo2, hi2, st2 = _range_bounds(ex, stmt.iter, b)
    if st1 != st2:
        raise Unsupported("loop steps differ")
    same, dt = rel.prove(a, b, z3.And(zint(lo1) == zint(lo2), zint(hi1) == zint(hi2)))
    if not same:
        raise Unsupported(f"loop bounds at {where} are not provably the same in the two runs")
    rel.record(a, b, f"bounds@{where}", z3.And(zint(lo1) == zint(lo2), zint(hi1) == zint(hi2)), dt)
    step = st1
    if all(isinstance(v, int) for v in (lo1, hi1, lo2, hi2)) and lo1 == lo2 and hi1 == hi2 and abs(hi1 - lo1) <= 6:
        # short literal range: both runs are unrolled in lockstep (no invariant needed)
        pairs, outs = [(a, b)], []
        for kv in range(lo1, hi1, step):
            nxt = []
            for (x, y) in pairs:
                x.env[idx] = kv
                y.env[idx] = kv
                for (p, q, kind, v1, v2) in exec_pair(rel, stmt.body, x, y):
                    if kind in (NORMAL, CONTINUE):
                        nxt.append((p, q))
                    elif kind == BREAK:
                        outs.append((p, q, NORMAL, None, None))
                    else:
                        outs.append((p, q, kind, v1, v2))
            pairs = nxt
        return outs + [(p, q, NORMAL, None, None) for (p, q) in pairs]
    zlo, zhi = zint(lo1), zint(hi1)
    assigned, stored = scan_modified(stmt.body)
    assigned.add(idx)
    for nm in spec_.get("ghost_assigned", []):
        assigned.add(nm)
    names = sorted((assigned | stored) - {idx})
    # ---- initiation: which modified variables agree at entry
    skip = set(rel.c.options.get("rel_scratch", []))     # variables known to differ legitimately (saves the inference a re-analysis)
    sim = [nm for nm in names if nm not in skip and nm in a.env and nm in b.env and rel.similar(a, b, nm, where + ".entry")]
    for (st, tag) in ((a, "1"), (b, "2")):
        for nm, expr in (spec_.get("invariant") or {}).items():
            saved, had = st.env.get(idx), idx in st.env
            st.env[idx] = lo1 if st is a else lo2
            try:
                rel.obligation(a, b, "inv.init", f"loop{ordn}/{nm}/run{tag}", zbool(ex.spec_eval(expr, st)))
            finally:
                if had:
                    st.env[idx] = saved
                else:
                    st.env.pop(idx, None)

    def head(k, tagk):
        h1, h2 = a.copy(), b.copy()
        havoc(ex, h1, assigned - {idx}, stored)
        havoc(ex, h2, assigned - {idx}, stored)
        for h in (h1, h2):
            h.assume(k_range(k) if tagk == "iter" else (k == exit_value), tag="range")
            h.env[idx] = k
        for nm in sim:
            g = rel.sim_goal(h1, h2, h1.env[nm], h2.env[nm])
            if g is not None and g is not True:
                h1.assume(g, tag="rel:lemma"); h2.assume(g, tag="rel:lemma")
        for h in (h1, h2):
            for nm, expr in (spec_.get("invariant") or {}).items():
                h.assume(zbool(ex.spec_eval(expr, h)), tag=f"inv:{nm}")
        return h1, h2

    def k_range(k):
        return z3.And(k >= zlo, k < zhi) if step == 1 else z3.And(k <= zlo, k > zhi)

    exit_value = z3.If(zlo <= zhi, zhi, zlo) if step == 1 else z3.If(zlo >= zhi, zhi, zlo)
    # ---- arbitrary iteration.  The relational invariant is the largest subset of `sim` that is preserved (Houdini): a variable
    # whose similarity is not re-established at the end of the body (e.g. a scratch array that legitimately differs at missing
    # cells) is dropped and the body is analysed again under the weaker invariant; dropping is sound.
    while True:
        out = []
        n_lem, n_ext, n_open = len(rel.lemmas), len(rel.extra), getattr(rel, "nopen", 0)
        k = fresh(idx, z3.IntSort())
        h1, h2 = head(k, "iter")
        failed = set()
        for (x, y, kind, v1, v2) in exec_pair(rel, stmt.body, h1, h2):
            if kind in (NORMAL, CONTINUE):
                nk = k + 1 if step == 1 else k - 1
                for nm in sim:
                    g = rel.sim_goal(x, y, x.env[nm], y.env[nm])
                    if g is None:
                        failed.add(nm)
                    elif g is not True:
                        ok, dt = rel.prove(x, y, g)
                        if ok:
                            rel.record(x, y, f"loop{ordn}/same_{nm}@{where}.pres", g, dt)
                        else:
                            failed.add(nm)
                for (st, tag) in ((x, "1"), (y, "2")):
                    saved = st.env.get(idx)
                    st.env[idx] = nk
                    for nm, expr in (spec_.get("invariant") or {}).items():
                        rel.obligation(x, y, "inv.pres", f"loop{ordn}/{nm}/run{tag}", zbool(ex.spec_eval(expr, st)))
                    st.env[idx] = saved
            elif kind == BREAK:
                out.append((x, y, NORMAL, None, None))
            else:
                out.append((x, y, kind, v1, v2))
        if not failed:
            break
        sim = [nm for nm in sim if nm not in failed]
        del rel.lemmas[n_lem:]
        del rel.extra[n_ext:]
        rel.nopen = n_open
        if os.environ.get("HDCV_REL_TRACE"):
            print(f"[rel]   loop {ordn} at {where}: similarity of {sorted(failed)} is not preserved, dropped from the relational invariant", flush=True)
    # ---- exit by exhaustion
    kx = fresh(idx + "!exit", z3.IntSort())
    e1, e2 = head(kx, "exit")
    last = kx - 1 if step == 1 else kx + 1
    ran = (zlo < zhi) if step == 1 else (zlo > zhi)
    for (e, st0) in ((e1, a), (e2, b)):
        prev = st0.env.get(idx)
        if prev is not None and (isinstance(prev, int) or (z3.is_expr(prev) and prev.sort() == z3.IntSort())):
            e.env[idx] = z3.If(ran, last, zint(prev))
        else:
            e.env[idx] = last
    out.append((e1, e2, NORMAL, None, None))
    return out


def verify_relational(c):
    res = FuncResult(c)
    try:
        fs = frontend.load(c.path, c.qualname)
        res.fsrc = fs
        ctx = Ctx(c, spec.REGISTRY, "U")
        ctx.options.update({"restrict_valfn": True, "loop_summaries": True, "index_obligations": False, "div_obligations": False,
                            "frame_obligations": False, "asserts_as_obligations": False, "valfn": True})
        res.ctx = ctx
        for nm in c.options.get("extra_axioms", []):
            ctx.axioms.append(ctx.fm.extra_axiom(nm))
            ctx.assumed.add(f"float model U, extra axiom `{nm}` (see fmodel.ModelU.extra_axiom)")
        ex = Exec(ctx, fs)
        shared, dims = {}, {}
        st1 = _entry(ex, c, fs, "1", shared, dims)
        st2 = _entry(ex, c, fs, "2", shared, dims)
        # the relational precondition speaks about the inputs only
        st0 = State()
        st0.heap = dict(st1.heap); st0.heap.update(st2.heap)
        for k, v in st1.env.items():
            st0.env[f"{k}_1"] = v
            if k in shared or k in dims:
                st0.env[k] = v
        for k, v in st2.env.items():
            st0.env[f"{k}_2"] = v
        relpre = [zbool(ex.spec_eval(e, st0)) for e in c.requires.values()]
        rel = Rel(ex, c, fs, relpre)
        outs = exec_pair(rel, fs.body, st1, st2)
        ctx.obls = []          # obligations of the single runs belong to the functional contracts, not to this one
        ex.obl_names = {}
        res.paths = len(outs)
        ctx.axioms.append(ctx.fm.distinct_consts_axiom())
        npair = 0
        for (c1, c2, kind, v1, v2) in outs:
            st = State()
            st.heap = dict(c1.heap); st.heap.update(c2.heap)
            for k, v in c1.env.items():
                st.env[f"{k}_1"] = v
                if k in shared or k in dims:
                    st.env[k] = v
            for k, v in c2.env.items():
                st.env[f"{k}_2"] = v
            st.env["result_1"], st.env["result_2"] = v1, v2
            st.pc = list(relpre) + list(c1.pc) + list(c2.pc)
            for nm, e in c.ensures.items():
                try:
                    g = ex.spec_eval(e, st)
                except Unsupported as exc:
                    if "unbound name" in str(exc):
                        continue      # the clause speaks about a local that does not exist on this pair of paths
                    raise
                # the lockstep lemmas carried forward are what the postcondition needs: keep the query small
                ex.emit(st, "rel", f"{nm}/pair{npair}", g, fs.path, by={"only": ["rel:lemma", "path"], "nlabs": False})
            npair += 1
        if npair == 0:
            raise Unsupported("no pair of return paths")
        ctx.obls = rel.lemmas + rel.extra + ctx.obls
        ctx.obls.append(Obl(f"{c.short}/vacuity/requires", "vacuity", list(relpre), z3.BoolVal(True), expect="sat", model="U"))
        ctx.notes.append(f"relational mode: {rel.nq} lockstep queries, {len(rel.lemmas)} lemmas carried forward")
    except frontend.BindingFailure as exc:
        res.error = ("binding", str(exc))
    except Unsupported as exc:
        res.error = ("unsupported", str(exc))
    except Exception as exc:
        import traceback
        res.error = ("crash", f"{type(exc).__name__}: {exc}\n{traceback.format_exc()}")
    if res.ctx is not None:
        for o in res.ctx.obls:
            o.axioms = list(res.ctx.axioms)
            o.alternatives = []
    return res

"""Lockstep self-composition (two runs of the same real AST) for relational properties in model U.

Both runs are executed by the ordinary symbolic executor, statement by statement in lockstep, on two sets of
input symbols that share the non-varying parameters.  Callee results, numpy reductions and loops are
*deterministic functions of the in-range values they read* (value functions over restricted arrays,
loops.summarise_loop), every floating-point operation is an uninterpreted function: equal inputs give equal
outputs bit for bit, nothing is assumed about rounding.

After every statement the variables it assigns are compared across the two runs; an equality (scalars) or
in-range pointwise equality (arrays) that the solver proves *at that point* is recorded as a discharged
lemma obligation (`rel.lemma`) and carried forward -- this keeps each query small.  A guard is shown equal
in both runs (then the runs branch together) or the four combinations are explored.  At every pair of return
points the relational postcondition is an obligation  pc_1 /\\ pc_2 /\\ relational precondition |- post."""
import ast
import os
import time

import z3

from . import frontend, spec, verify
from .engine import Arr, Ctx, Exec, NORMAL, Obl, Outcome, RETURN, BREAK, CONTINUE, RAISE, State, Tup, PList, Unsupported, fresh, sel, zbool, zint
from .loops import scan_modified
from .verify import FuncResult, parse_type


def _entry(ex, c, fs, suffix, shared, dims):
    st = State()
    for p in fs.params:
        ty = c.params.get(p)
        if ty is None:
            if p in fs.defaults:
                st.env[p] = ex.eval(fs.defaults[p], State())
                continue
            raise frontend.BindingFailure(f"{c.short}: parameter {p} has no type")
        t = parse_type(ty)
        vary = p in c.options["rel_vary"] or p in c.modifies
        name = f"{p}_{suffix}" if vary else p
        if not vary and p in shared:
            st.env[p] = shared[p]
            if isinstance(shared[p], Arr):
                st.heap[shared[p].oid] = shared[(p, "term")]
            continue
        if t["kind"] == "array":
            shape = []
            for d in t["dims"]:
                if isinstance(d, int):
                    shape.append(d)
                else:
                    if d not in dims:
                        dims[d] = z3.Int(d)
                    shape.append(dims[d])
            a = Arr(ex.ctx.new_oid(), tuple(shape), t["dtype"], name=name)
            term = z3.Const(name, ex.ctx.arr_sort(t["dtype"], len(shape)))
            st.heap[a.oid] = term
            st.env[p] = a
            if not vary:
                shared[p] = a
                shared[(p, "term")] = term
        elif t["kind"] == "scalar":
            v = z3.Const(name, ex.ctx.elem_sort(t["dtype"]))
            st.env[p] = v
            if not vary:
                shared[p] = v
        else:
            st.env[p] = t["value"]
    for d, v in dims.items():
        st.env.setdefault(d, v)
        st.assume(v >= 0)
    st.old = {"env": dict(st.env), "heap": dict(st.heap)}
    return st


class Rel:
    def __init__(self, ex, c, fs, relpre):
        self.ex, self.c, self.fs, self.relpre = ex, c, fs, relpre
        self.lemmas = []
        self.nq = 0

    def prove(self, s1, s2, goal, timeout=8000):
        """one lockstep query, in a forked child with a hard wall-clock limit (z3's own timeout is not always honoured
        inside quantifier instantiation); anything but `unsat` means: no lemma is carried forward"""
        self.nq += 1
        t0 = time.time()
        rfd, wfd = os.pipe()
        pid = os.fork()
        if pid == 0:
            try:
                os.close(rfd)
                s = z3.Solver()
                s.set("timeout", timeout)
                for a in self.ex.ctx.axioms:
                    s.add(a)
                for h in self.relpre:
                    s.add(h)
                for h in s1.pc:
                    s.add(h)
                for h in s2.pc:
                    s.add(h)
                s.add(z3.Not(goal))
                r = s.check()
                os.write(wfd, b"U" if r == z3.unsat else b"N")
            finally:
                os._exit(0)
        os.close(wfd)
        import select
        ok = False
        rd, _, _ = select.select([rfd], [], [], timeout / 1000.0 + 2.0)
        if rd:
            ok = os.read(rfd, 1) == b"U"
        else:
            try:
                os.kill(pid, 9)
            except OSError:
                pass
        os.close(rfd)
        os.waitpid(pid, 0)
        if not ok:
            self.nopen = getattr(self, "nopen", 0) + 1
            if self.nopen > int(self.c.options.get("rel_max_open", 60)):
                raise Unsupported(f"relational lockstep lost: {self.nopen} similarity queries left open")
        if os.environ.get("HDCV_REL_TRACE"):
            print(f"[rel] query {self.nq} {'unsat' if ok else 'open'} {time.time() - t0:.2f}s", flush=True)
        return ok, time.time() - t0

    def record(self, s1, s2, name, goal, dt):
        o = Obl(f"{self.ex.fname}/rel.lemma/{name}#{len(self.lemmas)}", "rel.lemma", list(self.relpre) + list(s1.pc) + list(s2.pc), goal, model="U")
        o.verdict, o.backend, o.time = "discharged", "z3", dt
        o.presolved = True
        self.lemmas.append(o)

    def similar(self, s1, s2, name, where):
        v1, v2 = s1.env.get(name), s2.env.get(name)
        if v1 is None or v2 is None or v1 is v2:
            return
        if isinstance(v1, (Tup, PList)) and isinstance(v2, (Tup, PList)) and len(v1.items) == len(v2.items):
            for i, (x, y) in enumerate(zip(v1.items, v2.items)):
                self.similar_values(s1, s2, f"{name}.{i}", x, y, where)
            return
        self.similar_values(s1, s2, name, v1, v2, where)

    def similar_values(self, s1, s2, name, v1, v2, where):
        if isinstance(v1, (Tup, PList)) and isinstance(v2, (Tup, PList)) and len(v1.items) == len(v2.items):
            for i, (x, y) in enumerate(zip(v1.items, v2.items)):
                self.similar_values(s1, s2, f"{name}.{i}", x, y, where)
            return
        ex = self.ex
        if isinstance(v1, Arr) and isinstance(v2, Arr):
            if v1.ndim != v2.ndim or v1.dtype != v2.dtype or v1.root().oid == v2.root().oid:
                return
            if all(isinstance(n, int) for n in v1.shape) and all(isinstance(n, int) for n in v2.shape) and v1.shape == v2.shape:
                import itertools
                cells = list(itertools.product(*[range(n) for n in v1.shape]))
                if len(cells) <= 8:
                    # small concrete arrays (e.g. the scalar output lopt): ground equalities, no quantifier to instantiate
                    goal = z3.And(*[ex.read(s1, v1, c, None, check=False) == ex.read(s2, v2, c, None, check=False) for c in cells]) if cells else z3.BoolVal(True)
                    ok, dt = self.prove(s1, s2, goal)
                    if ok:
                        self.record(s1, s2, f"{name}@{where}", goal, dt)
                        s1.assume(goal, tag="rel:lemma"); s2.assume(goal, tag="rel:lemma")
                    return
            ks = [z3.Int(f"k!sim{i}") for i in range(v1.ndim)]
            rng = z3.And(*[z3.And(k >= 0, k < zint(n)) for k, n in zip(ks, v1.shape)])
            shp = z3.And(*[zint(a) == zint(b) for a, b in zip(v1.shape, v2.shape)])
            a1 = ex.read(s1, v1, ks, None, check=False)
            a2 = ex.read(s2, v2, ks, None, check=False)
            goal = None
            if z3.is_app(a1) and a1.decl().kind() == z3.Z3_OP_SELECT:
                try:
                    goal = z3.And(shp, z3.ForAll(ks, z3.Implies(rng, a1 == a2), patterns=[a1]))
                except z3.Z3Exception:
                    goal = None
            if goal is None:
                goal = z3.And(shp, z3.ForAll(ks, z3.Implies(rng, a1 == a2)))
        elif z3.is_expr(v1) and z3.is_expr(v2) and v1.sort() == v2.sort():
            if v1.eq(v2):
                return
            goal = v1 == v2
        else:
            return
        ok, dt = self.prove(s1, s2, goal)
        if ok:
            self.record(s1, s2, f"{name}@{where}", goal, dt)
            s1.assume(goal, tag="rel:lemma")
            s2.assume(goal, tag="rel:lemma")


def exec_pair(rel, stmts, s1, s2):
    """-> list of (s1, s2, kind, v1, v2) ; kind in NORMAL / RETURN"""
    ex = rel.ex
    pairs = [(s1, s2)]
    done = []
    for stmt in stmts:
        nxt = []
        for (a, b) in pairs:
            if isinstance(stmt, ast.If):
                c1 = ex.truthy(ex.eval(stmt.test, a))
                c2 = ex.truthy(ex.eval(stmt.test, b))
                if isinstance(c1, bool) and isinstance(c2, bool):
                    if c1 != c2:
                        raise Unsupported("guards differ concretely in the two runs")
                    for r in exec_pair(rel, stmt.body if c1 else stmt.orelse, a, b):
                        (nxt if r[2] == NORMAL else done).append(r if r[2] != NORMAL else (r[0], r[1]))
                    continue
                c1, c2 = zbool(c1), zbool(c2)
                same, dt = rel.prove(a, b, c1 == c2)
                combos = [(True, True), (False, False)] if same else [(True, True), (True, False), (False, True), (False, False)]
                if same:
                    rel.record(a, b, f"guard@L{stmt.lineno}", c1 == c2, dt)
                for (t1, t2) in combos:
                    x, y = a.copy(), b.copy()
                    x.assume(c1 if t1 else z3.Not(c1), tag="path")
                    y.assume(c2 if t2 else z3.Not(c2), tag="path")
                    if same:
                        x.assume(c2 if t2 else z3.Not(c2), tag="path")
                        y.assume(c1 if t1 else z3.Not(c1), tag="path")
                    if t1 == t2:
                        res = exec_pair(rel, stmt.body if t1 else stmt.orelse, x, y)
                    else:
                        # the runs take different branches: executed independently, re-joined after the statement
                        r1 = ex.exec_block(stmt.body if t1 else stmt.orelse, x)
                        r2 = ex.exec_block(stmt.body if t2 else stmt.orelse, y)
                        res = [(p, q, (o1.kind if o1.kind == o2.kind else "mixed"), o1.value, o2.value) for p, o1 in r1 for q, o2 in r2]
                        if any(r[2] == "mixed" for r in res):
                            raise Unsupported("the two runs leave a conditional in different ways")
                    for r in res:
                        (nxt if r[2] == NORMAL else done).append(r if r[2] != NORMAL else (r[0], r[1]))
                continue
            r1 = ex.exec_stmt(stmt, a)
            r2 = ex.exec_stmt(stmt, b)
            assigned, stored = scan_modified([stmt])
            for (x, o1) in r1:
                for (y, o2) in r2:
                    if o1.kind != o2.kind:
                        raise Unsupported("the two runs leave a statement in different ways")
                    if len(r1) > 1 or len(r2) > 1:
                        x, y = x.copy(), y.copy()
                    if o1.kind == NORMAL:
                        for nm in sorted(assigned | stored):
                            rel.similar(x, y, nm, f"L{stmt.lineno}")
                        nxt.append((x, y))
                    elif o1.kind == RETURN:
                        done.append((x, y, RETURN, o1.value, o2.value))
                    else:
                        raise Unsupported(f"outcome {o1.kind} in relational mode")
        pairs = nxt
    return [(a, b, NORMAL, None, None) for (a, b) in pairs] + done


def verify_relational(c):
    res = FuncResult(c)
    try:
        fs = frontend.load(c.path, c.qualname)
        res.fsrc = fs
        ctx = Ctx(c, spec.REGISTRY, "U")
        ctx.options.update({"restrict_valfn": True, "loop_summaries": True, "index_obligations": False, "div_obligations": False,
                            "frame_obligations": False, "asserts_as_obligations": False, "valfn": True})
        res.ctx = ctx
        ex = Exec(ctx, fs)
        shared, dims = {}, {}
        st1 = _entry(ex, c, fs, "1", shared, dims)
        st2 = _entry(ex, c, fs, "2", shared, dims)
        # the relational precondition speaks about the inputs only
        st0 = State()
        st0.heap = dict(st1.heap); st0.heap.update(st2.heap)
        for k, v in st1.env.items():
            st0.env[f"{k}_1"] = v
            if k in shared or k in dims:
                st0.env[k] = v
        for k, v in st2.env.items():
            st0.env[f"{k}_2"] = v
        relpre = [zbool(ex.spec_eval(e, st0)) for e in c.requires.values()]
        rel = Rel(ex, c, fs, relpre)
        outs = exec_pair(rel, fs.body, st1, st2)
        ctx.obls = []          # obligations of the single runs belong to the functional contracts, not to this one
        ex.obl_names = {}
        res.paths = len(outs)
        ctx.axioms.append(ctx.fm.distinct_consts_axiom())
        npair = 0
        for (c1, c2, kind, v1, v2) in outs:
            st = State()
            st.heap = dict(c1.heap); st.heap.update(c2.heap)
            for k, v in c1.env.items():
                st.env[f"{k}_1"] = v
                if k in shared or k in dims:
                    st.env[k] = v
            for k, v in c2.env.items():
                st.env[f"{k}_2"] = v
            st.env["result_1"], st.env["result_2"] = v1, v2
            st.pc = list(relpre) + list(c1.pc) + list(c2.pc)
            for nm, e in c.ensures.items():
                try:
                    g = ex.spec_eval(e, st)
                except Unsupported as exc:
                    if "unbound name" in str(exc):
                        continue      # the clause speaks about a local that does not exist on this pair of paths
                    raise
                # the lockstep lemmas carried forward are what the postcondition needs: keep the query small
                ex.emit(st, "rel", f"{nm}/pair{npair}", g, fs.path, by={"only": ["rel:lemma", "path"], "nlabs": False})
            npair += 1
        if npair == 0:
            raise Unsupported("no pair of return paths")
        ctx.obls = rel.lemmas + ctx.obls
        ctx.obls.append(Obl(f"{c.short}/vacuity/requires", "vacuity", list(relpre), z3.BoolVal(True), expect="sat", model="U"))
        ctx.notes.append(f"relational mode: {rel.nq} lockstep queries, {len(rel.lemmas)} lemmas carried forward")
    except frontend.BindingFailure as exc:
        res.error = ("binding", str(exc))
    except Unsupported as exc:
        res.error = ("unsupported", str(exc))
    except Exception as exc:
        import traceback
        res.error = ("crash", f"{type(exc).__name__}: {exc}\n{traceback.format_exc()}")
    if res.ctx is not None:
        for o in res.ctx.obls:
            o.axioms = list(res.ctx.axioms)
            o.alternatives = []
    return res

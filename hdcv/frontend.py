"""Front end: read functions of /repo's *current working tree* by qualified name.

Nothing is cached or copied: every run re-parses the file with `ast`.

What extraction drops (reported in every evidence file):
  * decorator *applications* (@njit, @guvectorize, @lazycompile, @wraps) -- compilation itself;
    decorator *arguments* of guvectorize (type signatures, layout) are read and used;
  * docstrings, comments, pylint/pyright pragmas, type annotations.
"""
import ast
import hashlib
import os
import re

from . import REPO

DROPPED = [
    "decorator applications (@njit/@jit/@guvectorize/@lazycompile/@wraps): compilation is not modelled (C13 is the assumption)",
    "docstrings, comments, pragmas, type annotations",
]


class BindingFailure(Exception):
    """The sidecar contract no longer matches the source (function missing, params/loops changed)."""


class FuncSrc:
    def __init__(self, path, qualname, node, module_ast, text):
        self.path = path
        self.qualname = qualname
        self.node = node
        self.module_ast = module_ast
        self.params = [a.arg for a in node.args.args]
        seg = ast.get_source_segment(text, node) or ""
        self.text = seg
        # hash of the function body with docstring removed (dump of AST => comments/format ignored)
        body = list(node.body)
        if body and isinstance(body[0], ast.Expr) and isinstance(getattr(body[0], "value", None), ast.Constant) \
                and isinstance(body[0].value.value, str):
            body = body[1:]
        self.body = body
        dump = "".join(ast.dump(b) for b in body) + ast.dump(node.args)
        self.sha = hashlib.sha256(dump.encode()).hexdigest()[:16]
        self.defaults = {}
        args = node.args.args
        for a, d in zip(args[len(args) - len(node.args.defaults):], node.args.defaults):
            self.defaults[a.arg] = d
        self.gu = _guvectorize_info(node)
        self.loops = _collect_loops(body)

    @property
    def key(self):
        return f"{self.path}::{self.qualname}"


def _guvectorize_info(node):
    """Return {'sigs': [...], 'layout': str} from a (possibly lazycompile-wrapped) guvectorize decorator."""
    for dec in node.decorator_list:
        for call in ast.walk(dec):
            if isinstance(call, ast.Call):
                f = call.func
                name = f.id if isinstance(f, ast.Name) else (f.attr if isinstance(f, ast.Attribute) else None)
                if name == "guvectorize" and len(call.args) >= 2:
                    layout = call.args[1].value if isinstance(call.args[1], ast.Constant) else None
                    sigs = _sigs(call.args[0])
                    return {"sigs": sigs, "layout": layout}
    return None


def _sigs(node):
    out = []
    if isinstance(node, ast.Constant) and isinstance(node.value, str):
        return [_parse_sig_str(node.value)]
    if isinstance(node, ast.List):
        for e in node.elts:
            if isinstance(e, ast.Constant) and isinstance(e.value, str):
                out.append(_parse_sig_str(e.value))
            elif isinstance(e, ast.Tuple):
                out.append([_sig_elt(x) for x in e.elts])
    return out


def _parse_sig_str(s):
    s = s.strip()
    if s.startswith("(") and s.endswith(")"):
        s = s[1:-1]
    parts = re.findall(r"[a-z0-9]+(?:\[[:, ]*\])?", s)
    res = []
    for p in parts:
        m = re.match(r"([a-z0-9]+)(\[([:, ]*)\])?", p)
        nd = m.group(3).count(":") if m.group(2) else 0
        res.append((m.group(1), nd))
    return res


def _sig_elt(x):
    if isinstance(x, ast.Subscript):
        base = x.value.id if isinstance(x.value, ast.Name) else ast.unparse(x.value)
        sl = x.slice
        nd = len(sl.elts) if isinstance(sl, ast.Tuple) else 1
        return (base, nd)
    if isinstance(x, ast.Name):
        return (x.id, 0)
    return (ast.unparse(x), 0)


def loop_head(n):
    if isinstance(n, ast.For):
        return f"for {ast.unparse(n.target)} in {ast.unparse(n.iter)}"
    return f"while {ast.unparse(n.test)}"


_HEADS = None


def recorded_heads(key, variant):
    """loop headers of the source the sidecar was written against (contracts/loop_heads.json, written by gen_loop_heads.py)"""
    global _HEADS
    if _HEADS is None:
        import json, os
        try:
            with open(os.path.join(os.path.dirname(os.path.dirname(__file__)), "contracts", "loop_heads.json")) as fh:
                _HEADS = json.load(fh)
        except FileNotFoundError:
            _HEADS = {}
    return _HEADS.get(f"{key}@{variant}")


def _collect_loops(body):
    """Pre-order list of For nodes (loop ordinals are positions in this list)."""
    loops = []

    class V(ast.NodeVisitor):
        def visit_For(self, n):
            loops.append(n)
            self.generic_visit(n)

        def visit_FunctionDef(self, n):  # nested defs are separate
            pass

        def visit_Lambda(self, n):
            pass

        def visit_ListComp(self, n):
            pass

    v = V()
    for b in body:
        v.visit(b)
    return loops


_cache = {}


def load(path, qualname):
    """path relative to REPO, qualname 'func' or 'Class.method' (property getters included)."""
    if path.startswith("ghost:"):
        from . import VERIF
        full = os.path.join(VERIF, path[6:])
    else:
        full = os.path.join(REPO, path)
    if not os.path.exists(full):
        raise BindingFailure(f"{path} does not exist")
    with open(full) as fh:
        text = fh.read()
    try:
        mod = ast.parse(text)
    except SyntaxError as exc:  # pragma: no cover
        raise BindingFailure(f"{path}: {exc}")
    parts = qualname.split(".")
    scope = mod.body
    node = None
    for i, p in enumerate(parts):
        found = None
        for n in scope:
            if isinstance(n, (ast.FunctionDef, ast.ClassDef)) and n.name == p:
                # for overloaded defs (typing.overload) take the last definition
                found = n
        if found is None:
            raise BindingFailure(f"{path}::{qualname} not found")
        node = found
        scope = found.body
    if not isinstance(node, ast.FunctionDef):
        raise BindingFailure(f"{path}::{qualname} is not a function")
    return FuncSrc(path, qualname, node, mod, text)


def module_imports(mod):
    """name -> dotted origin, for resolving call targets."""
    res = {}
    for n in mod.body:
        if isinstance(n, ast.Import):
            for a in n.names:
                res[a.asname or a.name.split(".")[0]] = a.name
        elif isinstance(n, ast.ImportFrom):
            base = ("." * n.level) + (n.module or "")
            for a in n.names:
                res[a.asname or a.name] = f"{base}.{a.name}" if base else a.name
    return res

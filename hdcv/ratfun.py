"""ratfun back end: equalities between rational functions (DESIGN.md §2.6).

The goal `lhs == rhs` (reals) is normalised after substituting *oriented definitions* taken from the
hypotheses tagged let/inst/freeze/have (equalities whose left side is an atom: an array cell or a
constant), in the order they were introduced; `sympy.cancel(lhs - rhs)` must be 0.  Denominators
are separate `div` obligations discharged by z3.  Sound: each rewrite replaces equals by equals.
"""
import time

import z3

RULE_TAGS = ("let", "inst", "def", "have")


def _atom(t):
    if z3.is_app(t) and t.decl().kind() == z3.Z3_OP_UNINTERPRETED:
        return True
    if z3.is_app(t) and t.decl().kind() == z3.Z3_OP_SELECT:
        return True
    return False


class Conv:
    def __init__(self, obl=None):
        import sympy
        self.sp = sympy
        self.syms = {}
        self.obl = obl
        self.ite_checks = 0

    def decide(self, cond):
        """truth value of an ite condition under the obligation's hypotheses (quick z3 query), else None"""
        o = self.obl
        if o is None:
            return None
        self.ite_checks += 1
        for val, f in ((True, z3.Not(cond)), (False, cond)):
            s = z3.Solver()
            s.set("timeout", 3000)
            for a in o.axioms:
                s.add(a)
            for h in o.hyps:
                s.add(h)
            s.add(f)
            if s.check() == z3.unsat:
                return val
        return None

    def sym(self, t):
        key = t.sexpr()
        if key not in self.syms:
            self.syms[key] = self.sp.Symbol(f"a{len(self.syms)}")
        return self.syms[key]

    def conv(self, t):
        sp = self.sp
        if z3.is_rational_value(t):
            return sp.Rational(t.numerator_as_long(), t.denominator_as_long())
        if z3.is_int_value(t):
            return sp.Integer(t.as_long())
        if _atom(t):
            return self.sym(t)
        if not z3.is_app(t):
            raise ValueError(f"ratfun: unsupported term {t}")
        k = t.decl().kind()
        ch = [self.conv(c) for c in t.children()] if k not in (z3.Z3_OP_SELECT, z3.Z3_OP_ITE) else None
        if k == z3.Z3_OP_ADD:
            return sp.Add(*ch)
        if k == z3.Z3_OP_MUL:
            return sp.Mul(*ch)
        if k == z3.Z3_OP_SUB:
            r = ch[0]
            for c in ch[1:]:
                r = r - c
            return r
        if k == z3.Z3_OP_UMINUS:
            return -ch[0]
        if k == z3.Z3_OP_DIV:
            return ch[0] / ch[1]
        if k == z3.Z3_OP_POWER:
            return ch[0] ** ch[1]
        if k == z3.Z3_OP_TO_REAL:
            return ch[0]
        if k == z3.Z3_OP_ITE:
            d = self.decide(t.arg(0))
            if d is None:
                raise ValueError(f"ratfun: undecided ite condition {str(t.arg(0))[:80]}")
            return self.conv(t.arg(1) if d else t.arg(2))
        raise ValueError(f"ratfun: unsupported operator {t.decl().name()} in {str(t)[:80]}")


def _simp(t):
    return z3.simplify(t, som=False, arith_lhs=False, elim_to_real=False)


def prove(o):
    t0 = time.time()
    goal = o.goal
    if not (z3.is_app(goal) and goal.decl().kind() == z3.Z3_OP_EQ):
        return False, "ratfun: goal is not an equality"
    # an infeasible path (contradictory branch conditions) discharges anything
    tags0 = getattr(o, "hyp_tags", [None] * len(o.hyps))
    s0 = z3.Solver()
    s0.set("timeout", 3000)
    for h, tg in zip(o.hyps, tags0):
        if tg and any(tt.startswith(("path", "range")) for tt in tg.split(";")):
            s0.add(h)
    if s0.check() == z3.unsat:
        return True, "ratfun: infeasible path (branch conditions contradictory)"
    cv = Conv(o)
    sp = cv.sp
    extra_tags = tuple((o.by or {}).get("rules", ()))
    try:
        lhs, rhs = [_simp(x) for x in goal.children()]
        expr = cv.conv(lhs) - cv.conv(rhs)
        rules = []
        tags = getattr(o, "hyp_tags", [None] * len(o.hyps))
        for h, tag in zip(o.hyps, tags):
            if tag is None or not any(tt.split(":")[0] in RULE_TAGS or any(tt.startswith(x) for x in extra_tags) for tt in tag.split(";")):
                continue
            for eq in _equalities(h):
                a, b = [_simp(x) for x in eq.children()]
                if a.sort().kind() not in (z3.Z3_REAL_SORT, z3.Z3_INT_SORT):
                    continue
                try:
                    if _atom(a):
                        rules.append((cv.sym(a), cv.conv(b), tag))
                    elif _atom(b):
                        rules.append((cv.sym(b), cv.conv(a), tag))
                except ValueError:
                    continue   # not a usable rewrite rule (ite / unsupported operator): ignored
        for _ in range(6):
            before = expr
            for s, r, _tag in rules:
                if expr.has(s):
                    expr = expr.xreplace({s: r})
            if expr == before:
                break
        res = sp.cancel(sp.together(expr))
        ok = res == 0
        if not ok:
            num = sp.numer(sp.together(expr))
            free = {str(x) for x in num.free_symbols}
            names = {str(v): k for k, v in cv.syms.items() if str(v) in free}
            return False, f"ratfun: residual numerator {str(sp.expand(num))[:400]} ({len(rules)} rules, {time.time() - t0:.2f}s) atoms={names}"
        return True, f"ratfun: cancel -> 0 with {len(rules)} definitional rewrites ({time.time() - t0:.2f}s)"
    except Exception as exc:
        return False, f"ratfun: {type(exc).__name__}: {exc}"


def _equalities(h):
    if z3.is_app(h) and h.decl().kind() == z3.Z3_OP_EQ:
        return [h]
    if z3.is_app(h) and h.decl().kind() == z3.Z3_OP_AND:
        out = []
        for c in h.children():
            out += _equalities(c)
        return out
    return []

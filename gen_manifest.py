"""Generate MANIFEST.json from contracts/props.py (run with python3-vt gen_manifest.py)."""
import json, sys
sys.path.insert(0, "/verif")
from contracts import props

NA = props.NOT_APPLICABLE
checks = []
for pid in sorted(props.PROPS):
    P = props.PROPS[pid]
    checks.append({
        "property_id": pid,
        "quick_cmd": f"python3-vt -m hdcv.check {pid} --tier quick",
        "thorough_cmd": f"python3-vt -m hdcv.check {pid} --tier thorough",
        "evidence_file": f"/verif/evidence/{pid}.json",
        "replay_cmd_template": f"python3-vt -m hdcv.check {pid} --replay {{path}}",
        "engine": "hdcv",
        "level_claimed": {"category": P.get("level", "proof"), "text": P["level_text"], "design_ref": P.get("design_ref", "DESIGN.md §4 " + pid)},
        "level_note": P["level_note"],
        "technique": P.get("technique", "contract-based deductive verification: VCs generated from the real AST + sidecar contracts, discharged by z3/cvc5 (ratfun for equalities); bounded run-time contract checks labelled as such"),
    })
m = {
    "version": 1,
    "setup_cmd": "python3-vt -c \"import z3, sympy\" && /venv/bin/python -c \"import hdc.algo, numba, xarray\" && mkdir -p /verif/evidence /verif/replays",
    "hooks": {"guard": "HDC_ALGO_VERIF", "enable": "no hooks: contracts are sidecar files under /verif/contracts; the interpreted source is reached through .py_func/__wrapped__",
              "baseline_off_cmd": "cd /repo && /venv/bin/python -m pytest -ra -q -p no:cacheprovider --timeout=900 --continue-on-collection-errors",
              "source_commits": [], "add_only": True},
    "engines": [{"name": "hdcv", "path": "/verif/hdcv", "serves_properties": sorted(props.PROPS),
                 "kind_free_text": "own deductive verifier for the Numba/Python subset: ast -> symbolic execution with loop invariants -> named obligations -> z3 5.1 (python3-vt), cvc5 for z3's unknowns, sympy rational-function normaliser for equalities; contracts in /verif/contracts"}],
    "checks": checks,
    "not_applicable": [{"property_id": k, "reason": v} for k, v in sorted(NA.items())],
    "notes": "See DESIGN.md. Exit 0 held / 1 VIOLATION / 3 checker error. Known findings in known_findings.json.",
}
json.dump(m, open("/verif/MANIFEST.json", "w"), indent=1)
import jsonschema
jsonschema.validate(m, json.load(open("/root/.vp/MANIFEST.schema.json")))
print("MANIFEST ok:", [c["property_id"] for c in checks], "n/a:", sorted(NA))
